#!/venv/bin/python
"""tools/seed_meta.py ID 'CHECK=VERDICT[,CHECK=VERDICT]' 'note'  -> records the confirmation in seeded/ID/meta.json"""
import json, sys, os
d = os.path.join(os.path.dirname(os.path.dirname(os.path.abspath(__file__))), "seeded", sys.argv[1])
m = json.load(open(os.path.join(d, "meta.json")))
m["confirmed"] = {"how": "tools/mutant.py --patch seeded/%s/patch.diff --prop <check>: patch applied to a scratch copy of /repo (outside /repo and /verif), rebuilt in place, "
                         "repository suite run (54 passed), demo.py run against the unchanged build (exit 0) and the changed build (exit 1), then the check run with VERIF_REPO=<copy>; copy and build removed" % sys.argv[1],
                  "detection": dict(x.split("=") for x in sys.argv[2].split(",")), "note": sys.argv[3] if len(sys.argv) > 3 else ""}
json.dump(m, open(os.path.join(d, "meta.json"), "w"), indent=1)
print(sys.argv[1], m["confirmed"]["detection"])

#!/bin/bash
# Rebuild /repo in place and run the repository's own suite with the guard off.
cd /repo && env -u BIOSCRAPE_VERIF /venv/bin/python setup.py build_ext --inplace -j 5 > /var/tmp/inplace_build.log 2>&1 || { tail -30 /var/tmp/inplace_build.log; echo BUILD-FAILED; exit 2; }
env -u BIOSCRAPE_VERIF /venv/bin/python -m pytest -q -p no:cacheprovider --timeout=900 tests 2>&1 | tail -8

#!/venv/bin/python
"""Validate a monitor against a realistic breaking edit.

  tools/mutant.py NAME [--tier quick] [--suite]         (NAME from mutants/mutants.json)
  tools/mutant.py --patch FILE --prop C07 [--suite]     (a unified diff, e.g. seeded/<id>/patch.diff)

Copies /repo's working tree to a scratch directory outside /repo and /verif, applies the edit, optionally
confirms the repository's own tests still pass, runs the check with VERIF_REPO=<copy>, expects exit 1,
then removes the copy and its build directory."""
import argparse, json, os, shutil, subprocess, sys, tempfile, glob
VERIF = os.path.dirname(os.path.dirname(os.path.abspath(__file__)))
sys.path.insert(0, VERIF)
from vlib import build


def main():
    ap = argparse.ArgumentParser()
    ap.add_argument("name", nargs="?")
    ap.add_argument("--patch")
    ap.add_argument("--prop")
    ap.add_argument("--tier", default="quick")
    ap.add_argument("--suite", action="store_true")
    ap.add_argument("--seed", default="0")
    a = ap.parse_args()
    scratch = tempfile.mkdtemp(prefix="mut-", dir="/var/tmp")
    try:
        subprocess.run(["rsync", "-a", "--exclude", ".git", "--exclude", "*.so", "--exclude", "build", "--exclude", "*.cpp",
                        "--exclude", "examples", "--exclude", "*examples", "/repo/", scratch + "/"], check=True)
        if a.patch:
            props = [a.prop]
            r = subprocess.run(["patch", "-p1", "-i", os.path.abspath(a.patch)], cwd=scratch, stdout=subprocess.PIPE, text=True)
            if r.returncode != 0:
                print(r.stdout)
                print("PATCH FAILED")
                return 3
            name = os.path.basename(os.path.dirname(os.path.abspath(a.patch)))
        else:
            muts = json.load(open(os.path.join(VERIF, "mutants", "mutants.json")))
            mu = [m for m in muts if m["name"] == a.name]
            if not mu:
                print("unknown mutant", a.name)
                return 3
            mu = mu[0]
            name = mu["name"]
            props = [a.prop] if a.prop else (mu["prop"] if isinstance(mu["prop"], list) else [mu["prop"]])
            if mu.get("tier") and a.tier == "quick":
                a.tier = mu["tier"]
            edits = mu.get("edits") or [{"file": mu["file"], "old": mu["old"], "new": mu["new"]}]
            for e in edits:
                fp = os.path.join(scratch, e["file"])
                s = open(fp).read()
                if s.count(e["old"]) != 1:
                    print("MUTANT %s: anchor occurs %d times in %s" % (name, s.count(e["old"]), e["file"]))
                    return 3
                open(fp, "w").write(s.replace(e["old"], e["new"]))
        demo = os.path.join(os.path.dirname(os.path.abspath(a.patch)), "demo.py") if a.patch else None
        if demo and os.path.exists(demo):
            # the demonstration must pass on the unchanged tree (current /repo build) ...
            bdir, _ = build.ensure("plain", verbose=False)
            env0 = dict(os.environ, PYTHONPATH=bdir)
            env0.pop("BIOSCRAPE_VERIF", None)
            r0 = subprocess.run([build.PY, demo], cwd=os.path.dirname(demo), env=env0, stdout=subprocess.PIPE, stderr=subprocess.STDOUT, text=True, timeout=1800)
            print("demo on unchanged tree: exit=%d  %s" % (r0.returncode, (r0.stdout.strip().splitlines() or [""])[-1][:200]))
            a.suite = True
        if a.suite:
            r = subprocess.run([build.PY, "setup.py", "build_ext", "--inplace", "-j", "5"], cwd=scratch, stdout=subprocess.PIPE,
                               stderr=subprocess.STDOUT, text=True)
            if r.returncode != 0:
                print(r.stdout[-3000:])
                print("MUTANT %s does not compile" % name)
                return 3
            env = dict(os.environ, PYTHONPATH=scratch)
            env.pop("BIOSCRAPE_VERIF", None)
            r = subprocess.run([build.PY, "-m", "pytest", "-q", "-p", "no:cacheprovider", "--timeout=900", "-x", "tests"], cwd=scratch,
                               env=env, stdout=subprocess.PIPE, stderr=subprocess.STDOUT, text=True)
            print("suite:", r.stdout.strip().splitlines()[-1])
            if r.returncode != 0:
                print(r.stdout[-3000:])
                print("MUTANT %s fails the repository's own tests -> not a valid mutant" % name)
                return 4
            if demo and os.path.exists(demo):
                # ... and fail with the change
                r1 = subprocess.run([build.PY, demo], cwd=os.path.dirname(demo), env=env, stdout=subprocess.PIPE, stderr=subprocess.STDOUT, text=True, timeout=1800)
                print("demo with the change:   exit=%d  %s" % (r1.returncode, (r1.stdout.strip().splitlines() or [""])[-1][:200]))
        rc_all = 0
        for prop in props:
            env = dict(os.environ, VERIF_REPO=scratch, VERIF_SEED=a.seed, VERIF_EVIDENCE_DIR=os.path.join(scratch, "_evidence"),
                       VERIF_REPLAY_DIR=os.path.join(scratch, "_replays"), VERIF_CACHE_KEEP="6")
            r = subprocess.run([os.path.join(VERIF, "check"), prop, "--tier", a.tier], env=env, stdout=subprocess.PIPE,
                               stderr=subprocess.STDOUT, text=True)
            lines = [l for l in r.stdout.splitlines() if l.startswith(("VIOLATION", "  key=", "KNOWN", "INCONCLUSIVE", prop))]
            print("\n".join(lines[:12]))
            verdict = "CAUGHT" if (r.returncode == 1 and any(l.startswith("VIOLATION") for l in r.stdout.splitlines())) else ("MISSED" if r.returncode == 0 else "RC=%d" % r.returncode)
            print("MUTANT %s vs %s: %s" % (name, prop, verdict))
            if r.returncode != 1:
                rc_all = 1
                if r.returncode not in (0, 1):
                    print(r.stdout[-2500:])
        return rc_all
    finally:
        # remove the scratch copy and its build output
        try:
            key = build.tree_hash(scratch, "plain")
            for v in ("plain", "asan"):
                # ... unless the scratch copy is identical to the repository's tree (anchor not found, empty patch): that cache
                # entry belongs to the checks running against /repo (removing it made a concurrent sweep inconclusive)
                if build.tree_hash(scratch, v) != build.tree_hash("/repo", v):
                    shutil.rmtree(os.path.join(build.CACHE_ROOT, "%s-%s" % (build.tree_hash(scratch, v), v)), ignore_errors=True)
        except Exception:
            pass
        shutil.rmtree(scratch, ignore_errors=True)


if __name__ == "__main__":
    sys.exit(main())

#!/bin/bash
# usage: tools/collect_seed.sh SUFFIX OUTDIR WTPREFIX ID...   copies a sub-agent's deliverables to seeded/<ID><SUFFIX>/, removes its worktree,
# confirms the change and runs the property's check against it (log: /var/tmp/seedlogs/<ID><SUFFIX>.log)
suf=$1; out=$2; wt=$3; shift 3
cd /verif; mkdir -p /var/tmp/seedlogs
for p in "$@"; do
  mkdir -p seeded/${p}${suf}
  cp $out/$p/patch.diff $out/$p/demo.py seeded/${p}${suf}/
  cp $out/$p/notes.json seeded/${p}${suf}/meta.json
  git -C /repo worktree remove --force ${wt}-$p 2>/dev/null
done
printf '%s\n' "$@" | xargs -P 4 -I{} sh -c "tools/mutant.py --patch seeded/{}${suf}/patch.diff --prop {} > /var/tmp/seedlogs/{}${suf}.log 2>&1"
for p in "$@"; do echo "== $p$suf"; grep -v WARNING /var/tmp/seedlogs/${p}${suf}.log | grep "demo\|suite\|MUTANT\|key=" | cut -c1-260 | head -6; done

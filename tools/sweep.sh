#!/bin/bash
# usage: tools/sweep.sh TIER SEEDS... -- PROPS...   runs checks sequentially, evidence to a scratch dir, one line per run
tier=$1; shift
seeds=(); while [ "$1" != "--" ]; do seeds+=("$1"); shift; done; shift
for p in "$@"; do for s in "${seeds[@]}"; do
  out=$(VERIF_SEED=$s VERIF_EVIDENCE_DIR=/var/tmp/ev_sweep ./check $p --tier $tier 2>&1)
  rc=$?
  echo "rc=$rc $(echo "$out" | grep "^$p tier" | tail -1)"
  if [ $rc -ne 0 ]; then echo "$out" | grep -A1 "^VIOLATION\|^INCONCLUSIVE\|HARNESS" | head -8; fi
done; done

#!/venv/bin/python
"""Regenerates MANIFEST.json from the table below (kept in one place so it is always schema-valid)."""
import json, os, sys
VERIF = os.path.dirname(os.path.dirname(os.path.abspath(__file__)))
sys.path.insert(0, VERIF)
from tools.manifest_table import CHECKS, NOT_APPLICABLE, HOOK_COMMITS

props = [json.loads(l)["id"] for l in open(os.path.join(VERIF, "properties.jsonl"))]
checks = []
for pid in props:
    if pid not in CHECKS:
        continue
    c = CHECKS[pid]
    checks.append({
        "property_id": pid,
        "quick_cmd": "./check %s --tier quick" % pid,
        "thorough_cmd": "./check %s --tier thorough" % pid,
        "evidence_file": "/verif/evidence/%s.json" % pid,
        "replay_cmd_template": "./check %s --replay {path}" % pid,
        "engine": "vlib",
        "level_claimed": {"category": "exploration", "text": c["text"], "design_ref": "DESIGN.md section 4, %s" % pid},
        "level_note": c["note"],
        "technique": c["technique"],
    })
na = [{"property_id": p, "reason": NOT_APPLICABLE.get(p, "check not built yet in this session (work in progress); nothing is claimed")}
      for p in props if p not in CHECKS]
m = {
    "version": 1,
    "setup_cmd": "./check --setup",
    "hooks": {
        "guard": "BIOSCRAPE_VERIF",
        "enable": "checks copy /repo's working tree to a cache directory, rebuild the Cython extensions there (setup.py build_ext --inplace) and run children with BIOSCRAPE_VERIF=1 and PYTHONPATH=<that build>",
        "baseline_off_cmd": "cd /repo && env -u BIOSCRAPE_VERIF /venv/bin/python setup.py build_ext --inplace -j 5 >/dev/null 2>&1 && env -u BIOSCRAPE_VERIF /venv/bin/python -m pytest -ra -q -p no:cacheprovider --timeout=900 --continue-on-collection-errors tests",
        "source_commits": HOOK_COMMITS,
        "add_only": True,
    },
    "engines": [{"name": "vlib", "path": "/verif/vlib", "serves_properties": [c["property_id"] for c in checks],
                 "kind_free_text": "runtime monitoring: seeded/hostile workloads run against a fresh rebuild of /repo in child processes; reference-model, invariant, contract and statistical oracles observe the executions; ASan+UBSan lane for the native code"}],
    "checks": checks,
    "not_applicable": na,
    "notes": "All checks: exit 0 held on what was observed, exit 1 + VIOLATION line, exit 2 + INCONCLUSIVE line when the deciding monitors observed too little. VERIF_SEED selects the workload. Known findings: /verif/known_findings.json.",
}
json.dump(m, open(os.path.join(VERIF, "MANIFEST.json"), "w"), indent=1)

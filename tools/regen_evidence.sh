#!/bin/bash
# Re-run every quick check in /verif against /repo (evidence/<id>.json is rewritten) and validate MANIFEST and evidence against the schemas.
cd /verif
rc_all=0
for p in C01 C02 C03 C04 C05 C06 C07 C08 C09 C10 C11 C12 C13 C14 C15 C16 C17 C18 C19 C20; do
  out=$(./check $p --tier quick 2>&1); rc=$?
  echo "rc=$rc $(echo "$out" | grep "^$p tier" | tail -1)"
  [ $rc -ne 0 ] && { rc_all=1; echo "$out" | grep "^VIOLATION\|^INCONCLUSIVE\|HARNESS" | head -5; }
done
python3-vt - <<'P' || rc_all=1
import json, jsonschema, glob
ms=json.load(open('/root/.vp/MANIFEST.schema.json')); es=json.load(open('/root/.vp/EVIDENCE.schema.json'))
jsonschema.validate(json.load(open('/verif/MANIFEST.json')), ms)
n=0
for f in sorted(glob.glob('/verif/evidence/C*.json')):
    jsonschema.validate(json.load(open(f)), es); n+=1
print("schemas ok: MANIFEST + %d evidence files" % n)
P
exit $rc_all

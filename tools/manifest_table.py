HOOK_COMMITS = ["dcda180"]
NOT_APPLICABLE = {}
CHECKS = {
 "C01": {
  "technique": "runtime monitoring: reference-model oracle (closed-form rate laws) on the real propensity objects and on the plain/safe interface evaluation loops via guarded probes, over generated reactions, boundary states, volumes and four modes",
  "text": "Each generated reaction is evaluated by the rebuilt code in 4 modes x 3 routes and compared (rel 1e-12) with ref.rate; every type x mode x route cell is reached >= 20 times or the run is inconclusive. Held = no mismatch on the evaluations observed.",
  "note": "Trusted base: vlib/ref.py closed forms written from the documentation. Stochastic falling factorial asserted on integer states when a reactant repeats; safe interface expected to return 0 without the full reactant complement (C06's clause).",
 },
 "C02": {
  "technique": "runtime monitoring: harness-owned expression AST printed with syntactic variety, evaluated by the real parser/terms through 7 routes and compared with a Python-float reference evaluator; negative cases must be refused at build time",
  "text": "Random trees (depth<=4/5) over every supported operator and the sympy-colliding single-letter names are evaluated at well-conditioned points through parse_expression, general propensities and assignment rules; unknown names/unsupported functions must raise. Held = no wrong value and no accepted invalid expression on what was observed.",
  "note": "Trusted base: the AST evaluator in vlib/ref.py; ill-conditioned points and points near Heaviside jumps are skipped and counted; valid expressions that bioscrape refuses are counted (rejected_valid), not failed.",
 },
 "C03": {
  "technique": "runtime monitoring: reference stoichiometry / rate-equation oracle compared by species name across declaration orders and construction routes; negative cases with a valueless parameter must fail at initialisation",
  "text": "Update and delay-update arrays and the reported derivative of generated reaction lists are compared with products-minus-reactants and sum (S+Sd)*rate for up to 24 species declaration orders per spec and 4 construction routes. Held = no mismatch on what was observed.",
  "note": "Trusted base: vlib/ref.py (stoich, rates). The derivative is asserted only at points where the per-reaction rates agree with the reference, so a rate-law defect is reported once under C01/C02.",
 },
 "C07": {
  "technique": "runtime monitoring: exhaustive enumeration of the option lattice of py_simulate_model executed in child processes with an output-shape/label/first-row oracle and crash capture; ASan/UBSan lane in the thorough tier",
  "text": "All 360 option combinations x models x grids are executed; accepted outcomes are a well-formed result or a ValueError/TypeError raised by py_simulate_model itself; a crash or any other exception is 'fails from inside'. Held = every enumerated call was accepted.",
  "note": "Trusted base: reference rule interpreter for the first row; models/grids are fixed small examples (with delays, rules, exhaustion, zero initial propensity); a child killed by a signal is an observation, not a harness failure.",
 },
 "C16": {
  "technique": "runtime monitoring: icontract postcondition (observer) on PIDInterface.check_prior plus direct calls, compared with closed-form log-densities cross-checked against scipy.stats; out-of-support values must give a non-finite prior and -inf cost",
  "text": "Seven families x random parameters x interior / near-boundary / outside values and mixed vectors with the 'positive' flag; check_prior, the single prior methods and InferenceSetup.cost_function are observed. Held = no wrong density and no finite value outside the support on what was observed.",
  "note": "Trusted base: vlib/ref.logpdf (asserted equal to scipy.stats at child start); densities below exp(-650) are not asserted either way.",
 },
 "C20": {
  "technique": "runtime monitoring: operation histories replayed against the real ArrayDelayQueue and a sequential reference model (unique power-of-two amounts), exhaustive short histories + random long ones; ASan/UBSan lane in the thorough tier",
  "text": "Every history up to the length bound over the discretised alphabet is executed on the real queue and compared read by read with a 20-line sequential model; random histories to length 80 add wrap-around, copies and binomial partitions. Held = no divergence on the histories executed.",
  "note": "Trusted base: the sequential model in vlib/monitors/c20.py; requested times never exactly half-way; dyadic grid steps; histories beyond the bounds are not reached.",
 },
}

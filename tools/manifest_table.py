HOOK_COMMITS = ["dcda180"]
NOT_APPLICABLE = {}
CHECKS = {
 "C08": {
  "technique": "runtime monitoring: random operation histories (edits, re-initialisations, interfaces, simulations, seeding, pickling) replayed on the real model and compared with a freshly built twin by seeded bitwise-equal simulations; before/after snapshots around every simulate step; ASan/UBSan lane in the thorough tier",
  "text": "Each history provably ends in a target definition; the history model and a twin built in one constructor call must simulate identically from the same seeds in every mode, every simulation must be repeatable, and no simulate step may change the initial condition or a non-rule-assigned parameter; stale interfaces may be refused but must not corrupt later results. Held = no difference on the histories observed.",
  "note": "Trusted base: equality is between two runs of the same code; models where a rule assigns a parameter are excluded from the equality part; histories are bounded (<= 80 operations) and intermediate definitions are screened for non-explosive dynamics.",
 },
 "C09": {
  "technique": "runtime monitoring: reference rule interpreter re-evaluating every repeated assignment rule on every reported row, plus exact guard / schedule / dt-counter / ode-step invariants, across deterministic, SSA, safe, volume, delay and lineage single-cell simulation",
  "text": "Models combine chained rules, Heaviside-gated production, a rule zeroing a stored rate constant, a rule scheduled at an exact grid time, a dt counter and an ode rule on top of no / slow / fast reactions (counter species prove >= 10 firings per step). Held = every row consistent and every schedule respected on what was observed.",
  "note": "Trusted base: vlib/ref.py expression evaluator; dyadic grids; the number of dt-rule applications at the initial instant is not asserted.",
 },
 "C15": {
  "technique": "runtime monitoring: icontract postcondition (observer) on InferenceSetup.cost_function compared with log-prior minus Lp distance to a closed-form simulation; metamorphic partners (column / trajectory permutations, fresh set-up per theta); LL_data checked element-wise; real emcee run observed",
  "text": "Linear chain models with per-trajectory initial and parameter conditions and grids; the cost returned for sequences of theta (repeats, out-of-support points) must equal the stated posterior, be history-free and permutation-invariant, and LL_data must be aligned by name and row. Held = no deviation on the evaluations observed.",
  "note": "Trusted base: scipy expm closed form; vlib/ref.py log-priors; tolerance 1e-4*(1+|value|); theta whose prior density underflows are skipped and counted.",
 },
 "C17": {
  "technique": "runtime monitoring: name-aligned observation records (dictionaries, stoichiometry, four rate forms via guarded probes, seeded delay draws, rule effects, seeded simulations incl. lineage) compared between an object and its pickle / deep copy; independence by editing either side; result / state / lineage objects round-tripped",
  "text": "Models and LineageModels covering every propensity, expression-node, delay, rule, event and splitter type, initialised or not, copied before/after simulations and edits, copies of copies; results, cell states, schnitzes and lineages must survive pickling with data and mutual links. Held = identical records and independent copies on what was observed.",
  "note": "Trusted base: exact equality of two runs of the same code; shallow copy.copy is not covered; every member type must be reached >= 10 times or the run is inconclusive.",
 },
 "C19": {
  "technique": "runtime monitoring: exact conservation / duplication / volume / link invariants on every partition and every division of simulated lineages; binomial partition counts tested by randomized PIT with the DKW bound (two stages); every reported row checked against the network's own invariants",
  "text": "Three splitter classes called directly on random mothers, and lineage simulations with every growth / division / death mechanism on plain and safe interfaces (including cells whose total propensity reaches zero). Held = no invariant broken and no law rejected twice on what was observed.",
  "note": "Trusted base: scipy.stats binomial cdf; harness RNG for the PIT randomisation; lineage models carry no repeated rules so a daughter's first row is the partition itself.",
 },
 "C04": {
  "technique": "runtime monitoring: reported deterministic trajectories compared with the matrix-exponential solution (linear networks) or two cross-checked high-accuracy scipy integrations of the reference rate equations, over generated networks and uniform/non-uniform grids",
  "text": "Every generated model is simulated through py_simulate_model (frame and result), DeterministicSimulator on plain and safe interfaces; each row is compared with an exact/independent solution within 2e-5*(1+max|x|); row 0 must equal the initial condition. Held = no mismatch on the trajectories observed.",
  "note": "Trusted base: scipy expm / solve_ivp (accepted only when two references agree to 1e-8 and the problem is well conditioned); vlib/ref.py rate equations; class limited to T*L <= 8.",
 },
 "C05": {
  "technique": "runtime monitoring, statistical: empirical law of 1e5-1e6 seeded SSA runs per network tested cell by cell (marginals and joint pairs) against the CME solution with exact binomial tails (per-cell level 1e-15) and an independent confirming second stage",
  "text": "Finite-state template networks with random wiring and grids are run through SSASimulator (plain, safe) and py_simulate_model; counter species expose waiting time and reaction choice separately. Held = no cell rejected at both stages on the networks observed; false-alarm probability <= 1e-9 per stage.",
  "note": "Trusted base: reference propensities (vlib/ref.py) and scipy expm of the generator; resolution about 8*sqrt(p(1-p)/n) per cell - smaller biases pass.",
 },
 "C06": {
  "technique": "runtime monitoring: exact per-trajectory invariants (counter-species firing identity or MILP lattice feasibility, integrality, rational conservation laws, non-negativity, absorption) over generated networks, seeds and six simulators",
  "text": "Each reported trajectory must satisfy x-x0 = N S + D Sd with its own firing counters (or be MILP-feasible), keep every conservation law, stay non-negative (mass action / safe mode) and stay put once the reference total propensity is zero. Held = no invariant broken on the trajectories observed.",
  "note": "Trusted base: vlib/ref.py stoichiometry and propensities, sympy rational null space, scipy milp. Delayed reactants are excluded here (they may legitimately leave the non-negative domain); rules absent.",
 },
 "C10": {
  "technique": "runtime monitoring: exact delivery accounting with counter species and drained final queues, exact fixed-delay delivery windows, plus exact-tail statistical monitors (DKW for delay draws, Poisson in-flight law, CME for zero delay) with a confirming second stage",
  "text": "Delay, delay+volume and py_simulate_model runs must keep 0<=D<=N, x-x0=N S+D Sd and queue == N(T)-D(T); fixed delays must deliver inside their two/three-row window; delay samplers, in-flight counts and the zero-delay law are tested with non-asymptotic bounds. Held = none broken / rejected twice on what was observed.",
  "note": "Trusted base: vlib/ref.py, scipy.stats cdfs, the in-flight mean derived in DESIGN.md (C10); dyadic grid steps for the exact windows; delayed reactants drawn from an abundant species.",
 },
 "C11": {
  "technique": "runtime monitoring: constant-volume law tested against the CME with volume-scaled propensities (exact binomial tails, two stages); growth and division checked row by row against the growth law and the volume model's division instant",
  "text": "VolumeSSASimulator and py_simulate_model(volume=...) on V-sensitive template networks; StochasticTimeThresholdVolume / StateDependentVolume growth on firing, empty and exhausting models with dyadic and non-dyadic steps; division row, flag and truncation. Held = no rejection at both stages and no row outside its bounds on what was observed.",
  "note": "Trusted base: vlib/ref.py volume-scaled rate laws, scipy expm; growth law V0*exp(g t) within one step; division row exact only for dyadic steps (+-1 otherwise).",
 },
 "C12": {
  "technique": "runtime monitoring: observational equivalence of a generated model and its SBML re-import (species, parameters, stoichiometry, four rate forms via guarded probes, seeded delay draws, rule frequencies and effects), both export kinds and both import routes; double write compared",
  "text": "Every generated model is written twice and read back; the listed observables are compared by name at sampled states. Held = no observable differs on the round trips observed.",
  "note": "Trusted base: the comparison is between two bioscrape models (original vs re-import), so it is independent of the reference rate laws; ode rules and names that are not SBML identifiers are outside the generator.",
 },
 "C13": {
  "technique": "runtime monitoring: SBML documents built directly with libsbml, imported by bioscrape and compared with the harness's own evaluation of the document's ASTs (initial values, global parameters, stoichiometry, rule list, net derivative); icontract postcondition on import_sbml_rules",
  "text": "Random L3v2 documents with colliding local parameters, stoichiometries 1-3, modifiers and interleaved assignment/rate rules; the imported model's net derivative at 8 states must equal stoichiometry x kinetic law + rate rules. Held = no mismatch on the documents observed.",
  "note": "Trusted base: libsbml reader/writer/AST API; vlib/sbmlref.py evaluator. Documents failing libsbml's consistency check are discarded and counted; explicit refusals are counted and make the run inconclusive above 25%.",
 },
 "C14": {
  "technique": "runtime monitoring: written SBML read with libsbml only; kinetic-law ASTs evaluated by the harness at sampled states and compared with the propensity objects' deterministic / stochastic rates; identifier closure and stoichiometries checked",
  "text": "Deterministic and stochastic exports of generated models; every kinetic law must close over the document's identifiers and equal the model's rate at 8 states; species-reference stoichiometries must equal multiplicities. Held = only the listed known finding (Hill-family law text) on what was observed.",
  "note": "Trusted base: libsbml AST API, vlib/sbmlref.py (log without base = log10). Known finding C14/hill-kinetic-law is reported as KNOWN-FINDING; any other mismatch fails.",
 },
 "C18": {
  "technique": "runtime monitoring: py_get_jacobian / py_get_sensitivity_to_parameter compared with sympy derivatives of the reference rate equations under the scheme's own truncation bound; icontract snapshot/postcondition that the parameter dictionary is unchanged",
  "text": "Smooth generated networks, two states each, four difference schemes, every parameter name including generated dummy names; tolerance = 2 x truncation bound (higher derivative maximised over the stencil) + rounding terms. Held = all entries within bound and parameters unchanged on what was observed.",
  "note": "Trusted base: sympy differentiation, vlib/ref.py rate equations; h fixed at the library's 0.01.",
 },
 "C01": {
  "technique": "runtime monitoring: reference-model oracle (closed-form rate laws) on the real propensity objects and on the plain/safe interface evaluation loops via guarded probes, over generated reactions, boundary states, volumes and four modes",
  "text": "Each generated reaction is evaluated by the rebuilt code in 4 modes x 3 routes and compared (rel 1e-12) with ref.rate; every type x mode x route cell is reached >= 20 times or the run is inconclusive. Held = no mismatch on the evaluations observed.",
  "note": "Trusted base: vlib/ref.py closed forms written from the documentation. Stochastic falling factorial asserted on integer states when a reactant repeats; safe interface expected to return 0 without the full reactant complement (C06's clause).",
 },
 "C02": {
  "technique": "runtime monitoring: harness-owned expression AST printed with syntactic variety, evaluated by the real parser/terms through 7 routes and compared with a Python-float reference evaluator; negative cases must be refused at build time",
  "text": "Random trees (depth<=4/5) over every supported operator and the sympy-colliding single-letter names are evaluated at well-conditioned points through parse_expression, general propensities and assignment rules; unknown names/unsupported functions must raise. Held = no wrong value and no accepted invalid expression on what was observed.",
  "note": "Trusted base: the AST evaluator in vlib/ref.py; ill-conditioned points and points near Heaviside jumps are skipped and counted; valid expressions that bioscrape refuses are counted (rejected_valid), not failed.",
 },
 "C03": {
  "technique": "runtime monitoring: reference stoichiometry / rate-equation oracle compared by species name across declaration orders and construction routes; negative cases with a valueless parameter must fail at initialisation",
  "text": "Update and delay-update arrays and the reported derivative of generated reaction lists are compared with products-minus-reactants and sum (S+Sd)*rate for up to 24 species declaration orders per spec and 4 construction routes. Held = no mismatch on what was observed.",
  "note": "Trusted base: vlib/ref.py (stoich, rates). The derivative is asserted only at points where the per-reaction rates agree with the reference, so a rate-law defect is reported once under C01/C02.",
 },
 "C07": {
  "technique": "runtime monitoring: exhaustive enumeration of the option lattice of py_simulate_model executed in child processes with an output-shape/label/first-row oracle and crash capture; ASan/UBSan lane in the thorough tier",
  "text": "All 360 option combinations x models x grids are executed; accepted outcomes are a well-formed result or a ValueError/TypeError raised by py_simulate_model itself; a crash or any other exception is 'fails from inside'. Held = every enumerated call was accepted.",
  "note": "Trusted base: reference rule interpreter for the first row; models/grids are fixed small examples (with delays, rules, exhaustion, zero initial propensity); a child killed by a signal is an observation, not a harness failure.",
 },
 "C16": {
  "technique": "runtime monitoring: icontract postcondition (observer) on PIDInterface.check_prior plus direct calls, compared with closed-form log-densities cross-checked against scipy.stats; out-of-support values must give a non-finite prior and -inf cost",
  "text": "Seven families x random parameters x interior / near-boundary / outside values and mixed vectors with the 'positive' flag; check_prior, the single prior methods and InferenceSetup.cost_function are observed. Held = no wrong density and no finite value outside the support on what was observed.",
  "note": "Trusted base: vlib/ref.logpdf (asserted equal to scipy.stats at child start); densities below exp(-650) are not asserted either way.",
 },
 "C20": {
  "technique": "runtime monitoring: operation histories replayed against the real ArrayDelayQueue and a sequential reference model (unique power-of-two amounts), exhaustive short histories + random long ones; ASan/UBSan lane in the thorough tier",
  "text": "Every history up to the length bound over the discretised alphabet is executed on the real queue and compared read by read with a 20-line sequential model; random histories to length 80 add wrap-around, copies and binomial partitions. Held = no divergence on the histories executed.",
  "note": "Trusted base: the sequential model in vlib/monitors/c20.py; requested times never exactly half-way; dyadic grid steps; histories beyond the bounds are not reached.",
 },
}

# history / re-use dimensions added in the later building rounds (DESIGN.md 8.5, 8.6); appended to the level text
EXTRA = {
 "C01": "Integer states up to 2^31-1 and real-valued falling factorials (outside the open window m-1 < s < m) are asserted. Reactions may share one parameter-dictionary object, and every case is evaluated a second time after history operations on the same model (re-initialisation, new values, another model built, a simulation). ASan/UBSan replay in the thorough tier.",
 "C02": "The same expression is also evaluated after pickling the term, inside a deep-copied / pickled model, and re-compiled in the same process for another declaration order of the same species. General rates are also probed in their stochastic and stochastic-volume forms; a rule whose species are declared only after it must be refused or mean the written formula.",
 "C03": "Refused create_reaction calls (failing in the rate law or in the delay stage, some introducing new species) are interleaved with the valid ones in the incremental routes, one of which lets reactions introduce the species; species indices must be a bijection.",
 "C04": "Specs may share one parameter dictionary. Interfaces prepared or used before another model's interface is prepared / simulated must still follow their own equations. The tolerance band is measured per case with an independent scipy.odeint run on the reference equations (cases that run cannot solve are not judged); an interface built before set_species / set_params must simulate the values set afterwards.",
 "C05": "A large-count template (thousands of copies, third-order reactions whose combination count exceeds 2^32). A template with fewer copies than a repeated reactant needs (the reaction can never fire) turns 'no minus one' propensity defects into runs that end outside the reachable set instead of endless simulations.",
 "C06": "ASan/UBSan replay in the thorough tier.",
 "C13": "Species carrying both initialAmount and initialConcentration (tiny non-zero amounts included). A third of the documents are read with input_printout=True; duplicate species references; the comparison scale of a term is its magnitude without cancellation.",
 "C14": "Exports preceded by an export of the same or an identical model in the other mode. In-place set_params between two exports; a tenth of the mass-action constants are exactly 0; a used parameter written without a value, or a law evaluating to NaN, is a violation.",
 "C09": "Declaration order of independent rules is shuffled. ASan/UBSan replay in the thorough tier. A quarter of the cases use decimal steps (0.05, 0.1, 0.3, 0.7) whose grid times carry round-off; scheduled times are exact grid elements.",
 "C07": "Every lattice call is made twice on one model / interface object, optionally after an earlier run with other options and with in-place parameter edits between the two calls; a two-point grid is included. A rule for the initial instant ('start') is part of the first row.",
 "C08": "Refused edits and failing simulation calls are part of the history alphabet; interfaces built (and optionally used) before the final value edits must simulate the current values. The definitive initial values are set by one call or by one call per species; deterministic history-vs-twin runs agree to the integrator's tolerance, repeated runs of one object to 1e-10, stochastic runs bit for bit.",
 "C10": "Models assembled incrementally with refused delayed calls on the way. Runs continued in a second call from the returned state, time and queue are held to the same accounting and (one row wider) windows. ASan/UBSan replay in the thorough tier. Half of the gamma law cases use shape exactly 1.",
 "C11": "Output grids may start after the initial time; the constant-volume law is also reached through the safe interface, a Volume object, the safe flag and the delay-capable volume simulator, on templates that carry part of their products in a zero-delay delayed part. The Hill template cycles through the families with the exponent exactly 1.",
 "C12": "A second export of the same object after in-place value changes is re-imported and compared; scheduled rule times with many significant digits.",
 "C15": "Differing condition key sets; a prepared and used InferenceSetup re-configured through its setters and re-prepared; the stochastic cost on a rule-driven model with per-trajectory parameter conditions (also empty ones) and square N x T time arrays; dictionary key orders independent of listing orders. Initial-condition dictionaries naming different species subsets; a setter call that is refused followed by nothing but a re-preparation.",
 "C16": "End points of the closed support where the density is finite and positive (gamma shape 1 at 0, beta shape 1 at 0 / 1) are asserted.",
 "C17": "Original and copy must still agree after the same further edits; a parameter-free rule added to an initialised model right before copying; sub-lineages and partial lineages (links that leave the container) are round-tripped. ASan/UBSan replay in the thorough tier. Every third lineage model carries volume, division and death events at once.",
 "C18": "In-place parameter updates between passes on one model object; evaluations at a non-zero time; zero-order reactions and time-dependent rates; a SensitivityAnalysis helper object re-used after other models' helpers and simulations. Parameters up to 25000 (the difference step is an absolute 0.01); a twin with the opposite species order is built and differentiated first.",
 "C19": "Decoy division rules / events with opposite splitters; the same GeneralVolumeSplitter object re-configured repeatedly; lineage grids with non-representable steps and start times far from 0. ASan/UBSan replay in the thorough tier.",
 "C20": "Stating the time a ticked queue is already at is a no-op.",
}
for _k, _v in EXTRA.items():
    CHECKS[_k]["text"] = CHECKS[_k]["text"].rstrip() + " " + _v

HOOK_COMMITS = ["dcda180"]
NOT_APPLICABLE = {}
CHECKS = {
 "C20": {
  "technique": "runtime monitoring: operation histories replayed against the real ArrayDelayQueue and a sequential reference model (unique power-of-two amounts), exhaustive short histories + random long ones; ASan/UBSan lane in the thorough tier",
  "text": "Every history up to the length bound over the discretised alphabet is executed on the real queue and compared read by read with a 20-line sequential model; random histories to length 80 add wrap-around, copies and binomial partitions. Held = no divergence on the histories executed.",
  "note": "Trusted base: the sequential model in vlib/monitors/c20.py; requested times never exactly half-way; dyadic grid steps; histories beyond the bounds are not reached.",
 },
}

#!/bin/bash
# usage: tools/run_mutants.sh [-j N] name...   -> one summary line per mutant in mutants/results.log
J=3
if [ "$1" = "-j" ]; then J=$2; shift 2; fi
cd /verif
printf '%s\n' "$@" | xargs -P $J -I{} sh -c 'tools/mutant.py {} 2>&1 | grep "^MUTANT" >> mutants/results.log'

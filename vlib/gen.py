"""Shared random generators for specs (parent side, no bioscrape import)."""
import math, random, itertools

SPECIES_POOL = ["A", "B", "G", "X_1", "P2", "Zs", "d_sp", "C", "O", "Q", "N", "I", "E", "S"]
HILL = ("hillpositive", "hillnegative", "proportionalhillpositive", "proportionalhillnegative")


def logu(rnd, lo, hi):
    return math.exp(rnd.uniform(math.log(lo), math.log(hi)))


def nice(rnd, lo, hi):
    """log-uniform, rounded to 4 significant digits so values survive text round trips unchanged"""
    return float("%.4g" % logu(rnd, lo, hi))


def pfield(rnd, name, value, params, named_prob=0.6):
    """Return the field value: a parameter name (registered in params) or a numeric literal."""
    if rnd.random() < named_prob:
        params[name] = value
        return name
    return value if rnd.random() < 0.7 else repr(value)


def hill_rxn(rnd, ty, species, params, tag, lo=1e-3, hi=1e3, frac_n=True, named_prob=0.6):
    s1 = rnd.choice(species)
    n = float(rnd.randint(1, 4)) if (not frac_n or rnd.random() < 0.5) else float("%.3g" % rnd.uniform(0.3, 4))
    f = {"k": pfield(rnd, "k_" + tag, nice(rnd, lo, hi), params, named_prob),
         "K": pfield(rnd, "K_" + tag, nice(rnd, max(lo, 0.05), min(hi, 50)), params, named_prob),
         "n": pfield(rnd, "n_" + tag, n, params, named_prob), "s1": s1}
    if ty.startswith("proportional"):
        f["d"] = rnd.choice(species)
    return f


def multiset(rnd, species, order):
    return [rnd.choice(species) for _ in range(order)]


def general_ast(rnd, species, params, tag, time_dep=False, smooth=True):
    """A smooth, non-negative rate expression over species / parameters (optionally t)."""
    def P(name, lo=0.05, hi=5):
        nm = "%s_%s" % (name, tag)
        params[nm] = nice(rnd, lo, hi)
        return ["par", nm]
    s = lambda: ["sp", rnd.choice(species)]
    form = rnd.randrange(6)
    if form == 0:
        a = ["*", P("g"), s()]
    elif form == 1:
        a = ["/", ["*", P("g"), s()], ["+", ["num", 1], ["*", P("h", 0.05, 2), s()]]]
    elif form == 2:
        a = ["*", P("g"), ["exp", ["neg", ["*", ["num", float("%.2g" % rnd.uniform(0.01, 0.3))], s()]]]]
    elif form == 3:
        a = ["/", P("g"), ["+", ["num", 1], ["^", ["/", s(), P("K", 0.5, 20)], ["num", rnd.choice([1, 2, 3])]]]]
    elif form == 4:
        a = ["*", ["*", P("g", 0.01, 1), s()], s()]
    else:
        a = ["+", P("g"), ["*", P("h", 0.01, 1), ["^", s(), ["num", 2]]]]
    if time_dep:
        a = ["*", a, ["+", ["num", 1], ["/", ["*", ["num", 0.5], ["t"]], ["+", ["num", 1], ["t"]]]]]
    return a


def delay_spec(rnd, species, params, tag, named_prob=0.5, families=("fixed", "gaussian", "gamma"), scale=1.0):
    fam = rnd.choice(families)
    if fam == "fixed":
        pr = {"delay": pfield(rnd, "dl_" + tag, nice(rnd, 0.05 * scale, 8 * scale), params, named_prob)}
    elif fam == "gaussian":
        mean = nice(rnd, 0.2 * scale, 6 * scale)
        pr = {"mean": pfield(rnd, "dm_" + tag, mean, params, named_prob),
              "std": pfield(rnd, "ds_" + tag, float("%.3g" % (mean * rnd.uniform(0.05, 0.6))), params, named_prob)}
    else:
        pr = {"k": pfield(rnd, "dk_" + tag, float(rnd.choice([1, 2, 3, 5])) if rnd.random() < 0.6 else float("%.3g" % rnd.uniform(1, 6)), params, named_prob),
              "theta": pfield(rnd, "dth_" + tag, nice(rnd, 0.1 * scale, 3 * scale), params, named_prob)}
    return {"type": fam, "reactants": multiset(rnd, species, rnd.choice([0, 0, 1])),
            "products": multiset(rnd, species, rnd.choice([0, 1, 1, 2])), "params": pr}


def random_reaction(rnd, species, params, tag, types=None, max_order=4, allow_delay=True, time_dep_prob=0.2):
    types = types or (["massaction"] * 4 + list(HILL) + ["general", "general"])
    ty = rnd.choice(types)
    if ty == "massaction":
        order = rnd.randint(0, max_order)
        ms = multiset(rnd, species, order)
        f = {"k": pfield(rnd, "k_" + tag, nice(rnd, 0.01, 10), params)}
        if rnd.random() < 0.3:
            f["species"] = "*".join(ms)
        prods = multiset(rnd, species, rnd.randint(0, 3))
        if rnd.random() < 0.25 and ms:
            prods = prods + [ms[0]] * rnd.choice([1, 1, 2])   # catalyst, possibly with unequal multiplicity
        r = {"type": "massaction", "reactants": ms, "products": prods, "fields": f}
    elif ty in HILL:
        f = hill_rxn(rnd, ty, species, params, tag, lo=0.05, hi=20)
        r = {"type": ty, "reactants": multiset(rnd, species, rnd.randint(0, 2)), "products": multiset(rnd, species, rnd.randint(0, 3)), "fields": f}
    else:
        ast = general_ast(rnd, species, params, tag, time_dep=rnd.random() < time_dep_prob)
        r = {"type": "general", "reactants": multiset(rnd, species, rnd.randint(0, 3)), "products": multiset(rnd, species, rnd.randint(0, 3)),
             "fields": {}, "ast": ast}
    if allow_delay and rnd.random() < 0.3:
        r["delay"] = delay_spec(rnd, species, params, tag)
    return r

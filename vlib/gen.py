"""Shared random generators for specs (parent side, no bioscrape import)."""
import math, random, itertools

SPECIES_POOL = ["A", "B", "G", "X_1", "P2", "Zs", "d_sp", "C", "O", "Q", "N", "I", "E", "S"]
HILL = ("hillpositive", "hillnegative", "proportionalhillpositive", "proportionalhillnegative")


def logu(rnd, lo, hi):
    return math.exp(rnd.uniform(math.log(lo), math.log(hi)))


def nice(rnd, lo, hi):
    """log-uniform, rounded to 4 significant digits so values survive text round trips unchanged"""
    return float("%.4g" % logu(rnd, lo, hi))


def pfield(rnd, name, value, params, named_prob=0.6):
    """Return the field value: a parameter name (registered in params) or a numeric literal."""
    if rnd.random() < named_prob:
        params[name] = value
        return name
    return value if rnd.random() < 0.7 else repr(value)


def hill_rxn(rnd, ty, species, params, tag, lo=1e-3, hi=1e3, frac_n=True, named_prob=0.6):
    s1 = rnd.choice(species)
    n = float(rnd.randint(1, 4)) if (not frac_n or rnd.random() < 0.5) else float("%.3g" % rnd.uniform(0.3, 4))
    f = {"k": pfield(rnd, "k_" + tag, nice(rnd, lo, hi), params, named_prob),
         "K": pfield(rnd, "K_" + tag, nice(rnd, max(lo, 0.05), min(hi, 50)), params, named_prob),
         "n": pfield(rnd, "n_" + tag, n, params, named_prob), "s1": s1}
    if ty.startswith("proportional"):
        f["d"] = rnd.choice(species)
    return f


def multiset(rnd, species, order):
    return [rnd.choice(species) for _ in range(order)]


def general_ast(rnd, species, params, tag, time_dep=False, smooth=True):
    """A smooth, non-negative rate expression over species / parameters (optionally t)."""
    def P(name, lo=0.05, hi=5):
        nm = "%s_%s" % (name, tag)
        params[nm] = nice(rnd, lo, hi)
        return ["par", nm]
    s = lambda: ["sp", rnd.choice(species)]
    form = rnd.randrange(6)
    if form == 0:
        a = ["*", P("g"), s()]
    elif form == 1:
        a = ["/", ["*", P("g"), s()], ["+", ["num", 1], ["*", P("h", 0.05, 2), s()]]]
    elif form == 2:
        a = ["*", P("g"), ["exp", ["neg", ["*", ["num", float("%.2g" % rnd.uniform(0.01, 0.3))], s()]]]]
    elif form == 3:
        a = ["/", P("g"), ["+", ["num", 1], ["^", ["/", s(), P("K", 0.5, 20)], ["num", rnd.choice([1, 2, 3])]]]]
    elif form == 4:
        a = ["*", ["*", P("g", 0.01, 1), s()], s()]
    else:
        a = ["+", P("g"), ["*", P("h", 0.01, 1), ["^", s(), ["num", 2]]]]
    if time_dep:
        a = ["*", a, ["+", ["num", 1], ["/", ["*", ["num", 0.5], ["t"]], ["+", ["num", 1], ["t"]]]]]
    return a


def delay_spec(rnd, species, params, tag, named_prob=0.5, families=("fixed", "gaussian", "gamma"), scale=1.0):
    fam = rnd.choice(families)
    if fam == "fixed":
        pr = {"delay": pfield(rnd, "dl_" + tag, nice(rnd, 0.05 * scale, 8 * scale), params, named_prob)}
    elif fam == "gaussian":
        mean = nice(rnd, 0.2 * scale, 6 * scale)
        pr = {"mean": pfield(rnd, "dm_" + tag, mean, params, named_prob),
              "std": pfield(rnd, "ds_" + tag, float("%.3g" % (mean * rnd.uniform(0.05, 0.6))), params, named_prob)}
    else:
        pr = {"k": pfield(rnd, "dk_" + tag, float(rnd.choice([1, 2, 3, 5])) if rnd.random() < 0.6 else float("%.3g" % rnd.uniform(1, 6)), params, named_prob),
              "theta": pfield(rnd, "dth_" + tag, nice(rnd, 0.1 * scale, 3 * scale), params, named_prob)}
    return {"type": fam, "reactants": multiset(rnd, species, rnd.choice([0, 0, 1])),
            "products": multiset(rnd, species, rnd.choice([0, 1, 1, 2])), "params": pr}


def random_reaction(rnd, species, params, tag, types=None, max_order=4, allow_delay=True, time_dep_prob=0.2):
    types = types or (["massaction"] * 4 + list(HILL) + ["general", "general"])
    ty = rnd.choice(types)
    if ty == "massaction":
        order = rnd.randint(0, max_order)
        ms = multiset(rnd, species, order)
        f = {"k": pfield(rnd, "k_" + tag, nice(rnd, 0.01, 10), params)}
        if rnd.random() < 0.3:
            f["species"] = "*".join(ms)
        prods = multiset(rnd, species, rnd.randint(0, 3))
        if rnd.random() < 0.25 and ms:
            prods = prods + [ms[0]] * rnd.choice([1, 1, 2])   # catalyst, possibly with unequal multiplicity
        r = {"type": "massaction", "reactants": ms, "products": prods, "fields": f}
    elif ty in HILL:
        f = hill_rxn(rnd, ty, species, params, tag, lo=0.05, hi=20)
        r = {"type": ty, "reactants": multiset(rnd, species, rnd.randint(0, 2)), "products": multiset(rnd, species, rnd.randint(0, 3)), "fields": f}
    else:
        ast = general_ast(rnd, species, params, tag, time_dep=rnd.random() < time_dep_prob)
        r = {"type": "general", "reactants": multiset(rnd, species, rnd.randint(0, 3)), "products": multiset(rnd, species, rnd.randint(0, 3)),
             "fields": {}, "ast": ast}
    if allow_delay and rnd.random() < 0.3:
        r["delay"] = delay_spec(rnd, species, params, tag)
    return r


def network(rnd, nsp=None, nrx=None, counters=False, delays=False, nonmass_consumers=False, max_order=3, k_lo=0.05, k_hi=3.0,
            x0_hi=8, delay_scale=1.0, named_prob=0.5, types=None, delayed_reactants=False, share_prob=0.0):
    """A reaction network for trajectory monitors.  Every mass-action rate uses exactly its reactants; reactions with a
    Hill / general rate consume species only when nonmass_consumers is set (those networks are run in safe mode)."""
    nsp = nsp or rnd.randint(2, 6)
    nrx = nrx or rnd.randint(1, 8)
    species = rnd.sample(SPECIES_POOL, nsp)
    params = {}
    rx = []
    types = types or (["massaction"] * 5 + list(HILL) + ["general", "general"])
    for i in range(nrx):
        tag = "r%d" % i
        ty = rnd.choice(types)
        if ty == "massaction":
            order = rnd.choice([0, 1, 1, 1, 2, 2, 3][: max_order * 2 + 1])
            reac = multiset(rnd, species, order)
            if order >= 2 and rnd.random() < 0.4:
                reac = [reac[0]] * order           # homodimer / trimer
            prods = multiset(rnd, species, rnd.choice([0, 1, 1, 2]))
            if rnd.random() < 0.2 and reac:
                prods = prods + [reac[0]]
            r = {"type": "massaction", "reactants": reac, "products": prods,
                 "fields": {"k": pfield(rnd, "k_" + tag, nice(rnd, k_lo, k_hi), params, named_prob)}}
        else:
            if ty in HILL:
                f = hill_rxn(rnd, ty, species, params, tag, lo=k_lo, hi=k_hi, named_prob=named_prob)
                r = {"type": ty, "fields": f}
            else:
                r = {"type": "general", "fields": {}, "ast": general_ast(rnd, species, params, tag)}
            if nonmass_consumers and rnd.random() < 0.6:
                r["reactants"] = multiset(rnd, species, rnd.choice([1, 1, 2]))
                if rnd.random() < 0.3:
                    r["reactants"] = [r["reactants"][0]] * 2
            else:
                r["reactants"] = []
            r["products"] = multiset(rnd, species, rnd.choice([0, 1, 1, 2])) if r["reactants"] else multiset(rnd, species, rnd.choice([1, 1, 2]))
        if delays and rnd.random() < 0.5:
            r["delay"] = delay_spec(rnd, species, params, tag, named_prob, scale=delay_scale)
            if not delayed_reactants:
                # a delayed reactant is consumed at delivery time without any availability check, so such networks may
                # legitimately leave the non-negative domain; monitors that assert non-negativity switch them off
                r["delay"]["reactants"] = []
        rx.append(r)
    if share_prob and rnd.random() < share_prob:
        # the mass-action reactions are written with ONE parameter dictionary (same Python object, see spec.build_model)
        ma = [r for r in rx if r["type"] == "massaction"]
        if len(ma) >= 2:
            for r in ma:
                r["fields"] = dict(ma[0]["fields"])
                r["share"] = "g0"
    x0 = {s: rnd.choice([0, 0, 1, 2, 3, rnd.randint(0, x0_hi), rnd.randint(2, x0_hi)]) for s in species}
    spec = {"species": species, "x0": x0, "params": params, "reactions": rx, "rules": []}
    if counters:
        add_counters(spec)
    return spec


def add_counters(spec):
    """Reaction r gets an extra immediate product N<r> and (if it has a delayed part) a delayed product D<r>."""
    spec["counters"] = {}
    for i, r in enumerate(spec["reactions"]):
        n = "N%d" % i
        r["products"] = list(r["products"]) + [n]
        spec["species"].append(n)
        spec["x0"][n] = 0
        ent = {"N": n}
        if r.get("delay"):
            d = "D%d" % i
            r["delay"]["products"] = list(r["delay"]["products"]) + [d]
            spec["species"].append(d)
            spec["x0"][d] = 0
            ent["D"] = d
        spec["counters"][str(i)] = ent
    return spec


def grid(rnd, n_lo=5, n_hi=400, dyadic=True, T=None):
    n = rnd.randint(n_lo, n_hi)
    if dyadic:
        dt = 2.0 ** rnd.randint(-6, -1)
    else:
        dt = float("%.3g" % logu(rnd, 0.005, 0.5))
    if T is not None:
        dt = T / (n - 1)
        if dyadic:
            dt = 2.0 ** round(math.log2(dt))
    return {"t0": 0.0, "dt": dt, "n": n}


def bounded(spec, T, cap=400.0, steps=400):
    """Cheap mean-field screen (forward Euler on the reference rate equations): False if some species would exceed `cap`
    within T, i.e. the network is explosive for trajectory monitors."""
    from . import ref
    x = {s: float(spec["x0"].get(s, 0)) for s in ref.all_species(spec)}
    h = T / steps
    try:
        for i in range(steps):
            xs = {k: max(v, 0.0) for k, v in x.items()}
            d = ref.rhs(spec, xs, spec["params"], i * h)
            for k in x:
                x[k] += h * d[k]
                if not (abs(x[k]) < cap):
                    return False
    except (ref.Undefined, OverflowError, ZeroDivisionError, ValueError):
        return False
    return True


def mass_nonincreasing(spec):
    """structural screen: every reaction with >=1 reactant makes at most as many molecules as it consumes (immediate+delayed)"""
    for r in spec["reactions"]:
        dl = r.get("delay") or {}
        nin = len(r["reactants"]) + len(dl.get("reactants", []))
        nout = len(r["products"]) + len(dl.get("products", []))
        if nin >= 1 and nout > nin:
            return False
    return True


def ast_degree(a):
    """asymptotic polynomial degree of a rate AST in the species (for the explosion screen)"""
    op = a[0]
    if op in ("num", "par", "t", "vol"):
        return 0
    if op == "sp":
        return 1
    if op in ("+", "-"):
        return max(ast_degree(a[1]), ast_degree(a[2]))
    if op == "*":
        return ast_degree(a[1]) + ast_degree(a[2])
    if op == "/":
        return max(0, ast_degree(a[1]) - ast_degree(a[2]))
    if op == "^":
        return ast_degree(a[1]) * (a[2][1] if a[2][0] == "num" else 4)
    if op == "neg":
        return ast_degree(a[1])
    if op == "exp":
        return 0 if a[1][0] == "neg" else 99
    return max([ast_degree(x) for x in a[1:] if isinstance(x, list)] or [0])


def superlinear_producer(spec):
    """structural screen: a reaction whose rate grows faster than linearly in the counts and which makes more molecules
    than it consumes can explode in FINITE time (X -> X+1 at rate g X^2 reaches infinity before any horizon with positive
    probability; the simulator then never returns).  Such networks say nothing about the properties: rejected."""
    for r in spec["reactions"]:
        dl = r.get("delay") or {}
        nin = len(r["reactants"]) + len(dl.get("reactants", []))
        nout = len(r["products"]) + len(dl.get("products", []))
        if nout <= nin:
            continue
        if r["type"] == "massaction":
            deg = len(r["reactants"])
        elif r["type"] == "general":
            deg = ast_degree(r["ast"])
        else:
            deg = 1
        if deg >= 2:
            return True
    return False


def ssa_screen(spec, T, max_events=2500, trials=3, seed=1):
    """pure-Python Gillespie pre-screen (delays treated as zero): False if a trial needs more than max_events events
    or leaves the non-negative domain, i.e. the network is (stochastically) explosive for trajectory monitors."""
    import random as _r
    from . import ref
    rnd = _r.Random(seed)
    sp = ref.all_species(spec)
    S, Sd = ref.stoich(spec)
    net = []
    for i in range(len(spec["reactions"])):
        c = dict(S[i])
        for k, v in Sd[i].items():
            c[k] = c.get(k, 0) + v
        net.append(c)
    for _ in range(trials):
        x = {s: float(spec["x0"].get(s, 0)) for s in sp}
        t, ev = 0.0, 0
        while True:
            try:
                rs = ref.rates(spec, x, spec["params"], 1.0, "stoch", t)
            except Exception:
                return False
            lam = sum(rs)
            if not (lam > 0):
                break
            t += rnd.expovariate(lam)
            if t > T:
                break
            u = rnd.random() * lam
            acc = 0.0
            for i, r in enumerate(rs):
                acc += r
                if acc >= u:
                    break
            for k, v in net[i].items():
                x[k] += v
                if x[k] < 0:
                    return False
            ev += 1
            if ev > max_events:
                return False
    return True


def bounded_network(rnd, T, tries=400, cap=400.0, **kw):
    counters = kw.pop("counters", False)
    for _ in range(tries):
        sp = network(rnd, counters=False, **kw)
        if not kw.get("nonmass_consumers") and not mass_nonincreasing(sp):
            continue
        if superlinear_producer(sp):
            continue
        if bounded(sp, T, cap) and ssa_screen(sp, T, seed=rnd.getrandbits(30)):
            if counters:
                add_counters(sp)
            return sp
    raise RuntimeError("no bounded network found")

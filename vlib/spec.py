"""The harness's own model description and the routes that build a bioscrape Model from it.
(imports bioscrape lazily: generators run in the parent, builders in the children)"""
import copy
from . import ref


def rxn_tuple(r, style=None):
    """bioscrape reaction tuple (length 4 or 8) for a spec reaction."""
    f = dict(r["fields"])
    if r["type"] == "general":
        f = {"rate": r.get("rate_str") or ref.to_str(r["ast"], style)}
    elif r["type"] == "massaction" and f.get("species") is None:
        f.pop("species", None)
    dl = r.get("delay")
    if dl:
        return (list(r["reactants"]), list(r["products"]), r["type"], f, dl["type"], list(dl.get("reactants", [])),
                list(dl.get("products", [])), dict(dl.get("params", {})))
    return (list(r["reactants"]), list(r["products"]), r["type"], f)


def rule_tuple(r, style=None):
    if r["type"] == "additive":
        eq = "%s = %s" % (r["target"], " + ".join(r["sources"]))
        return ("additive", {"equation": eq}, r.get("frequency", "repeated"))
    if r["type"] == "assignment":
        eq = "%s = %s" % (r.get("target_str", r["target"]), r.get("rhs_str") or ref.to_str(r["ast"], style))
        return ("assignment", {"equation": eq}, r.get("frequency", "repeated"))
    if r["type"] == "ode":
        return ("ode", {"equation": r.get("rhs_str") or ref.to_str(r["ast"], style), "target": r["target"]}, "dt")
    raise ValueError(r["type"])


def _scribble(rx, rl):
    """After the model has been built the caller goes on using ITS OWN dictionaries and lists (here: overwrites them with
    nonsense), as a script does that re-uses one dict for the next reaction.  A model keeps its own copies."""
    for t in rx:
        for d in (t[3],) + ((t[7],) if len(t) > 4 else ()):
            if isinstance(d, dict):
                for k in list(d):
                    d[k] = "zz_scribbled" if isinstance(d[k], str) else 12345.678
                d["zz_extra"] = 1.0
        for lst in (t[0], t[1]) + ((t[5], t[6]) if len(t) > 4 else ()):
            if isinstance(lst, list):
                lst.append("zz_scribbled_species")
    for t in rl:
        if isinstance(t[1], dict):
            for k in list(t[1]):
                t[1][k] = "zz_scribbled = 1"


def build_model(spec, route="ctor", cls=None, style=None, initialize=True):
    m = _build_model(spec, route, cls, style, initialize)
    return m


def _build_model(spec, route="ctor", cls=None, style=None, initialize=True):
    """route: 'ctor' (constructor lists) | 'incremental' (create_reaction/create_rule/set_parameter) |
    'icd' (species only through initial_condition_dict)"""
    if cls is None:
        from bioscrape.types import Model as cls
    rx = [rxn_tuple(r, style) for r in spec["reactions"]]
    # reactions marked with the same "share" group are given ONE parameter-dictionary object, the way a user writes
    # `deg = {"k": "kdeg"}` once and passes it to several reactions
    shared = {}
    for i, r in enumerate(spec["reactions"]):
        g = r.get("share")
        if g is not None:
            if g in shared and shared[g] == rx[i][3]:
                rx[i] = rx[i][:3] + (shared[g],) + rx[i][4:]
            else:
                shared.setdefault(g, rx[i][3])
    rl = [rule_tuple(r, style) for r in spec.get("rules", [])]
    params = list(spec["params"].items())
    x0 = dict(spec.get("x0", {}))
    if route == "ctor":
        m = cls(species=list(spec["species"]), reactions=rx, parameters=params, rules=rl,
                initial_condition_dict=x0, initialize_model=initialize)
        _scribble(rx, rl)
        return m
    if route == "icd":
        icd = {s: x0.get(s, 0) for s in spec["species"]}
        icd.update(x0)
        return cls(reactions=[], parameters=params, initial_condition_dict=icd, initialize_model=False) \
            if False else _icd(cls, spec, rx, rl, params, icd, initialize)
    if route in ("incremental", "incremental_implicit"):
        # incremental_implicit: spec["species"] lists only what has to be declared up front (species that occur in rate laws only);
        # every other species enters the model through the reaction that first mentions it
        m = cls(species=list(spec["species"]), initialize_model=False)
        for i_, t in enumerate(rx):
            _poison(m, spec, i_)
            if spec.get("init_after") == i_ and i_ > 0:
                # the model is initialised (and thereby usable) half-way; the remaining reactions are added afterwards
                for k, v in params:
                    if k in m.get_params2index():
                        m.set_parameter(k, v)
                m.py_initialize()
            if len(t) == 4:
                m.create_reaction(t[0], t[1], t[2], t[3])
            else:
                m.create_reaction(t[0], t[1], t[2], t[3], delay_type=t[4], delay_reactants=t[5], delay_products=t[6],
                                  delay_param_dict=t[7])
        for k, v in params:
            m.set_parameter(k, v)
        for t in rl:
            m.create_rule(t[0], dict(t[1]), rule_frequency=t[2])
        m.set_species({s: 0 for s in m.get_species_list() if s not in x0})
        m.set_species(x0)
        _scribble(rx, rl)
        if initialize:
            m.py_initialize()
        return m
    raise ValueError(route)


class PoisonAccepted(Exception):
    pass


def _poison(m, spec, i):
    """spec["poison"] = [[position, kind], ...]: before reaction `position` is added, a create_reaction call that bioscrape
    refuses (it names an undeclared species inside the rate law) is attempted and the exception swallowed, as an
    interactive user would; the reactions added afterwards must be unaffected."""
    for pos, kind in spec.get("poison", []):
        if pos != i:
            continue
        sp = list(spec["species"]) or ref.all_species(spec)
        a, b = sp[0], sp[-1]
        try:
            if kind == "hill_s1":
                m.create_reaction([a, a], [b], "hillpositive", {"k": 1.0, "K": 2.0, "n": 2, "s1": "zz_undeclared"})
            elif kind == "prophill_d":
                m.create_reaction([b], [a, a, a], "proportionalhillnegative", {"k": 1.0, "K": 2.0, "n": 2, "s1": a, "d": "zz_undeclared"})
            elif kind == "ma_species":
                m.create_reaction([a], [b, b], "massaction", {"k": 1.0, "species": "zz_undeclared*" + a})
            elif kind == "delay_param_species_name":
                # a delay parameter named like a species is refused when the parameter is registered
                m.create_reaction([a], [b], "massaction", {"k": 1.0}, delay_type="fixed", delay_reactants=[], delay_products=[b],
                                  delay_param_dict={"delay": a})
            elif kind == "new_species_bad_delay":
                # introduces a new immediate species and a new delayed-only species, then fails on the delay dictionary
                m.create_reaction([a], ["zz_n1"], "massaction", {"k": 1.0}, delay_type="fixed", delay_reactants=[], delay_products=["zz_n2"],
                                  delay_param_dict={})
            elif kind == "unknown_delay_type":
                m.create_reaction([a], ["zz_n3", b], "massaction", {"k": 1.0}, delay_type="weibull", delay_reactants=[], delay_products=["zz_n4"],
                                  delay_param_dict={"delay": 1.0})
            else:
                m.create_reaction([a], [b], "hillnegative", {"k": 1.0, "K": 2.0, "n": 2, "s1": "zz_undeclared"},
                                  delay_type="fixed", delay_reactants=[b], delay_products=[a, a], delay_param_dict={"delay": 1.0})
        except Exception:
            continue
        raise PoisonAccepted(kind)


def _icd(cls, spec, rx, rl, params, icd, initialize):
    # species are declared through the initial condition dictionary only; since the constructor adds
    # reactions before the dictionary, the species order is then fixed by the reactions first.
    m = cls(initialize_model=False)
    for s in icd:
        m._add_species(s)
    m.set_species(icd)
    for i_, t in enumerate(rx):
        _poison(m, spec, i_)
        if len(t) == 4:
            m.create_reaction(t[0], t[1], t[2], t[3])
        else:
            m.create_reaction(t[0], t[1], t[2], t[3], delay_type=t[4], delay_reactants=t[5], delay_products=t[6],
                              delay_param_dict=t[7])
    for k, v in params:
        m.set_parameter(k, v)
    for t in rl:
        m.create_rule(t[0], dict(t[1]), rule_frequency=t[2])
    _scribble(rx, rl)
    if initialize:
        m.py_initialize()
    return m


def state_vec(model, xdict):
    import numpy as np
    idx = model.get_species2index()
    v = np.zeros(len(idx))
    for s, i in idx.items():
        v[i] = float(xdict.get(s, 0.0))
    return v


def param_vec(model):
    import numpy as np
    return np.array(model.get_parameter_values(), dtype=float).copy()

"""Child-side: a canonical, name-aligned record of everything observable about a model (used by C08 and C17)."""
import math
import numpy as np


def _arr(a):
    a = np.asarray(a, dtype=float)
    return a


def same(a, b):
    """exact (bitwise up to NaN==NaN) equality of nested observation records; returns (ok, path)"""
    if isinstance(a, dict):
        if not isinstance(b, dict) or set(a) != set(b):
            return False, "keys %r vs %r" % (sorted(a)[:8], sorted(b)[:8] if isinstance(b, dict) else b)
        for k in a:
            ok, p = same(a[k], b[k])
            if not ok:
                return False, "%s/%s" % (k, p)
        return True, ""
    if isinstance(a, (list, tuple)):
        if not isinstance(b, (list, tuple)) or len(a) != len(b):
            return False, "length %s vs %s" % (len(a), len(b) if isinstance(b, (list, tuple)) else b)
        for i, (x, y) in enumerate(zip(a, b)):
            ok, p = same(x, y)
            if not ok:
                return False, "[%d]/%s" % (i, p)
        return True, ""
    if isinstance(a, np.ndarray):
        if not isinstance(b, np.ndarray) or a.shape != b.shape:
            return False, "array shape %s vs %s" % (a.shape, getattr(b, "shape", None))
        if np.array_equal(a, b, equal_nan=True):
            return True, ""
        idx = np.argwhere(~((a == b) | (np.isnan(a) & np.isnan(b))))[0]
        return False, "array%s: %r vs %r" % (tuple(int(i) for i in idx), a[tuple(idx)], b[tuple(idx)])
    if isinstance(a, float) and isinstance(b, float) and math.isnan(a) and math.isnan(b):
        return True, ""
    return (a == b), "%r vs %r" % (a, b)


def static(M, states, V=1.7):
    """dictionaries, stoichiometry by name, rates in four forms, rule list -- no random numbers consumed"""
    out = {}
    sd = M.get_species_dictionary()
    out["species"] = {s: float(v) for s, v in sd.items()}
    out["params"] = {p: float(v) for p, v in M.get_parameter_dictionary().items()}
    idx = M.get_species2index()
    U, D = M.py_get_update_array(), M.py_get_delay_update_array()
    if U is not None:
        out["update"] = {s: _arr(U[i]) for s, i in idx.items()}
        out["delay_update"] = {s: _arr(D[i]) for s, i in idx.items()}
    props = M.get_propensities()
    pv = np.array(M.get_parameter_values(), dtype=float)
    rates = []
    for st in states:
        x = np.zeros(len(idx))
        for s, i in idx.items():
            x[i] = float(st.get(s, 0.0))
        row = []
        for P in props:
            vals = []
            for f in (lambda: P.py_get_propensity(x.copy(), pv.copy(), 0.5), lambda: P.py_get_volume_propensity(x.copy(), pv.copy(), V, 0.5),
                      lambda: P.py_get_stochastic_propensity(x.copy(), pv.copy(), 0.5), lambda: P.py_get_stochastic_volume_propensity(x.copy(), pv.copy(), V, 0.5)):
                try:
                    vals.append(float(f()))
                except Exception as e:
                    vals.append("raised " + type(e).__name__)
            row.append(vals)
        rates.append(row)
    out["rates"] = rates
    out["delay_classes"] = [type(d).__name__ for d in M.get_delays()]
    out["rules"] = [(str(t[0]), {k: str(v) for k, v in t[1].items()}, str(t[2])) for t in M.get_rules()]
    out["has_delay"] = bool(M.has_delays())
    return out


def dynamic(M, states, tp, seed, lineage=False, with_delay_draws=True):
    """seeded behaviour: delay draws, rule effects, simulations (consumes bioscrape's random stream, re-seeded per item)"""
    import bioscrape.random as brandom
    from bioscrape.simulator import ModelCSimInterface, py_simulate_model
    out = {}
    idx = M.get_species2index()
    pv = np.array(M.get_parameter_values(), dtype=float)
    p_before = dict(M.get_parameter_dictionary())
    if with_delay_draws:
        draws = []
        x = np.zeros(len(idx))
        for d in M.get_delays():
            brandom.py_seed_random(seed + 11)
            draws.append([float(d.py_get_delay(x, pv)) for _ in range(6)])
        out["delay_draws"] = draws
    itf = ModelCSimInterface(M)
    eff = []
    for st in states[:3]:
        for (tt, step) in ((0.0, True), (float(tp[1]), False), (float(tp[2]), True)):
            x = np.zeros(len(idx))
            for s, i in idx.items():
                x[i] = float(st.get(s, 0.0))
            itf.py_apply_repeated_rules(x, tt, step)
            eff.append({s: float(x[i]) for s, i in idx.items()})
            M.set_params(p_before)
    out["rule_effects"] = eff

    def sim(**kw):
        brandom.py_seed_random(seed)
        try:
            r = py_simulate_model(tp.copy(), Model=M, return_dataframe=False, **kw)
            X = np.array(r.py_get_result(), dtype=float)
            res = {s: X[:, i] for s, i in idx.items()}
        except Exception as e:
            res = "raised " + type(e).__name__
        M.set_params(p_before)
        return res

    out["deterministic"] = sim(stochastic=False)
    out["stochastic"] = sim(stochastic=True)
    out["safe"] = sim(stochastic=True, safe=True)
    out["volume"] = sim(stochastic=True, volume=2.0)
    if M.has_delays():
        out["delay"] = sim(stochastic=True, delay=True)
    if lineage:
        from bioscrape.lineage import py_SimulateSingleCell, py_SimulateCellLineage
        out["event_counts"] = list(M.py_get_event_counts())
        out["rule_counts"] = list(M.py_get_rule_counts())
        brandom.py_seed_random(seed + 1)
        try:
            r = py_SimulateSingleCell(tp.copy(), Model=M, return_dataframes=False)
            X = np.array(r.py_get_result(), dtype=float)
            out["single_cell"] = {"data": {s: X[:, i] for s, i in idx.items()}, "volume": np.array(r.py_get_volume(), dtype=float),
                                  "time": np.array(r.py_get_timepoints(), dtype=float), "divided": int(r.py_get_divided()), "dead": int(r.py_get_dead())}
        except Exception as e:
            out["single_cell"] = "raised " + type(e).__name__
        M.set_params(p_before)
        brandom.py_seed_random(seed + 2)
        try:
            lin = py_SimulateCellLineage(tp.copy(), Model=M)
            cells = []
            for i in range(lin.py_size()):
                s = lin.py_get_schnitz(i)
                Xs = np.array(s.py_get_data(), dtype=float)
                cells.append({"time": np.array(s.py_get_time(), dtype=float), "volume": np.array(s.py_get_volume(), dtype=float),
                              "data": {sp: Xs[:, j] for sp, j in idx.items()}})
            out["lineage"] = cells
        except Exception as e:
            out["lineage"] = "raised " + type(e).__name__
        M.set_params(p_before)
    return out

"""Case batches -> child processes, watchdog, crash capture.  Never multiprocessing.Pool."""
import json, os, subprocess, tempfile, shutil, time, signal, sys
from concurrent.futures import ThreadPoolExecutor
from . import build

PY = build.PY


def _clip(t):
    # faulthandler prints the stack first and a very long extension-module list last: keep the head
    t = t.replace("\r", "")
    i = t.find("Extension modules:")
    if i >= 0:
        t = t[:i]
    return t[:2500] if len(t) <= 3000 else t[:2000] + "\n...\n" + t[-800:]


def _run_batch(monitor, indexed_cases, env, timeout, workdir, tag, case_timeout=None):
    bfile = os.path.join(workdir, "batch-%s.json" % tag)
    ofile = os.path.join(workdir, "out-%s.jsonl" % tag)
    with open(bfile, "w") as fh:
        json.dump({"monitor": monitor, "cases": indexed_cases, "case_timeout": case_timeout}, fh)
    open(ofile, "w").close()
    status = {"timeout": False, "rc": None, "stderr": ""}
    try:
        r = subprocess.run([PY, "-X", "faulthandler", "-m", "vlib.worker", bfile, ofile], env=env, cwd=build.VERIF,
                           stdout=subprocess.PIPE, stderr=subprocess.PIPE, timeout=timeout)
        status["rc"] = r.returncode
        status["stderr"] = _clip(r.stderr.decode("utf-8", "replace"))
        if r.returncode != 0 and "Timeout (" in status["stderr"][:200]:
            status["timeout"] = True        # the worker's per-case watchdog fired
    except subprocess.TimeoutExpired as e:
        status["timeout"] = True
        status["stderr"] = _clip((e.stderr or b"").decode("utf-8", "replace"))
    recs, started, envinfo, done, partials = {}, None, None, False, {}
    with open(ofile) as fh:
        for line in fh:
            try:
                o = json.loads(line)
            except ValueError:
                continue
            if "env" in o:
                envinfo = o["env"]
            elif o.get("start"):
                started = o["i"]
            elif "rec" in o:
                recs[o["i"]] = o["rec"]
                if started == o["i"]:
                    started = None
            elif "partial" in o:
                partials.setdefault(o["i"], []).append(o["partial"])
            elif o.get("done"):
                done = True
    os.remove(bfile)
    os.remove(ofile)
    status["partials"] = partials
    return recs, started, envinfo, done, status


def run_cases(monitor, cases, variant="plain", batch_size=20, timeout_per_case=60.0, base_timeout=60.0, workers=16,
              bdir=None):
    """Returns (records list aligned with cases, info dict)."""
    if bdir is None:
        bdir, key = build.ensure(variant)
    workdir = tempfile.mkdtemp(prefix="verif-run-", dir="/var/tmp")
    env = build.child_env(bdir, variant, logdir=workdir)
    n = len(cases)
    records = [None] * n
    info = {"build_dir": bdir, "children": 0, "crashes": 0, "timeouts": 0, "env": None, "foreign_import": 0,
            "sanitizer_logs": []}
    indexed = list(enumerate(cases))
    batches = [indexed[i:i + batch_size] for i in range(0, n, batch_size)]
    tagc = [0]

    def work(batch, solo=False):
        pending = list(batch)
        while pending:
            tagc[0] += 1
            tag = "%d-%d" % (os.getpid(), tagc[0])
            to = base_timeout + timeout_per_case * len(pending)
            recs, started, envinfo, done, status = _run_batch(monitor, pending, env, to, workdir, tag, case_timeout=timeout_per_case)
            info["children"] += 1
            if envinfo:
                info["env"] = envinfo
                if not envinfo["types"].startswith(bdir):
                    info["foreign_import"] += 1
            for i, r in recs.items():
                records[i] = r
            rest = [(i, c) for (i, c) in pending if i not in recs]
            if not rest:
                return
            if envinfo is None and started is None and not status["timeout"]:
                # child died before running anything: harness failure, do not loop forever
                for i, c in rest:
                    records[i] = {"error": "worker failed to start: rc=%s\n%s" % (status["rc"], status["stderr"])}
                return
            culprit = started if started is not None else rest[0][0]
            if status["timeout"] and status["partials"].get(culprit):
                # the monitor had already reported a violation for this case before it hung: nothing to gain from a re-run
                records[culprit] = {"timeout": True, "partial_viol": status["partials"][culprit]}
                info["timeouts"] += 1
                pending = [(j, c) for (j, c) in rest if j != culprit]
                continue
            if len(pending) == 1 or (len(rest) >= 1 and rest[0][0] == culprit and solo):
                i = culprit
                if status["timeout"]:
                    records[i] = {"timeout": True, "partial_viol": status["partials"].get(i, [])}
                    info["timeouts"] += 1
                else:
                    records[i] = {"crash": True, "rc": status["rc"], "stderr": status["stderr"], "partial_viol": status["partials"].get(i, [])}
                    info["crashes"] += 1
                pending = [(j, c) for (j, c) in rest if j != i]
                continue
            # re-run the culprit alone to attribute the crash / timeout, then the remainder
            cul = [(i, c) for (i, c) in rest if i == culprit]
            others = [(i, c) for (i, c) in rest if i != culprit]
            tagc[0] += 1
            r2, s2, e2, d2, st2 = _run_batch(monitor, cul, env, base_timeout + timeout_per_case * 2, workdir,
                                             "%d-%d" % (os.getpid(), tagc[0]), case_timeout=2 * timeout_per_case)
            info["children"] += 1
            if culprit in r2:
                records[culprit] = r2[culprit]
                records[culprit]["rerun_after_batch_failure"] = True
            elif st2["timeout"]:
                records[culprit] = {"timeout": True, "partial_viol": st2["partials"].get(culprit, []) or status["partials"].get(culprit, [])}
                info["timeouts"] += 1
            else:
                records[culprit] = {"crash": True, "rc": st2["rc"], "stderr": st2["stderr"],
                                    "partial_viol": st2["partials"].get(culprit, []) or status["partials"].get(culprit, [])}
                info["crashes"] += 1
            pending = others

    with ThreadPoolExecutor(max_workers=workers) as ex:
        list(ex.map(work, batches))
    # sanitizer logs
    if variant == "asan":
        for f in sorted(os.listdir(workdir)):
            if f.startswith("asan"):
                try:
                    info["sanitizer_logs"].append(open(os.path.join(workdir, f), errors="replace").read())
                except OSError:
                    pass
    shutil.rmtree(workdir, ignore_errors=True)
    return records, info

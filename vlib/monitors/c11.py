"""C11 - volume-aware simulation scales rates with volume and tracks growth and division."""
import math
from collections import Counter
from vlib import util, ref, gen, stats, spec as specmod
from vlib.monitors import c05

PROPERTY = "C11"
RULE = ("(a) constant volume V in (0.2,5): C05's finite-state templates whose law depends on V (bimolecular, order 3, zero-order, Hill, catalysis) "
        "through VolumeSSASimulator with a base Volume and py_simulate_model(volume=V), exact binomial tests of marginals and joint pairs against "
        "the CME built from volume-scaled reference propensities, two-stage; (b) growth: StochasticTimeThresholdVolume / StateDependentVolume "
        "(noise 0) on models with firing reactions, no reactions and exhausting reactions, dyadic and non-dyadic grid steps: V>0, non-decreasing, "
        "within one step of V0*exp(g t); (c) division placed inside the grid: last row = first grid time at which the volume model reports "
        "division (exact for dyadic steps, +-1 row otherwise), flag set, arrays truncated consistently; no division -> full length, flag false; "
        "non-trivial = constant-V network whose V-scaled and unscaled laws differ by >5% in some cell, or growth over >= 1 doubling; distinct by case")
ASSUMPTIONS = ["CME reference with volume-scaled propensities from vlib/ref.py", "growth law V0*exp(g t) with g=ln2/cycle or the growth expression's value",
               "exact binomial tails at per-cell level 1e-15 with a confirming second stage"]
RUN_OPTS = {"batch_size": 2, "timeout_per_case": 300.0, "base_timeout": 120.0}
MINIMA = {"*": {"constant_volume_runs": 100000, "cells_tested": 200, "growth_cases": 40, "growth_rows_checked": 2000, "division_cases": 20, "offset_grid_cases": 15}}

VTEMPLATES = ["homodimer", "trimer", "birthdeath", "hill", "catalysis", "general"]


def generate(tier, seed):
    rnd = util.rng(PROPERTY, tier, seed, "cases")
    cases = []
    nnet = 6 if tier == "quick" else 40
    runs = 100000 if tier == "quick" else 1000000
    i = 0
    while len([c for c in cases if c["kind"] == "constV"]) < nnet:
        name = VTEMPLATES[i % len(VTEMPLATES)]
        i += 1
        # the Hill template cycles through the families with the exponent exactly 1 (the Michaelis-Menten edge) and 2
        hv = [("hillpositive", 1.0), ("proportionalhillpositive", 1.0), ("hillpositive", 2.0), ("proportionalhillnegative", 1.0),
              ("proportionalhillpositive", 2.5)][(i // len(VTEMPLATES)) % 5]
        sp, finite, sims, cap = c05.template(rnd, name, hill=hv if name == "hill" else None)
        if "ssa" not in sims:
            continue
        if i % 2 == 0:
            # some reactions carry part of their products in a delayed part: a volume simulator without delay support applies
            # both parts at the firing time and the delay-capable one delivers a zero delay at once: the law is that of the net stoichiometry,
            # also on the 10^5-th run of one model
            for r_i, r in enumerate(sp["reactions"]):
                if r_i % 2 == 0 and r["products"]:
                    r["delay"] = {"type": "fixed", "reactants": [], "products": [r["products"][-1]], "params": {"delay": 0.0}}
                    r["products"] = r["products"][:-1]
        V = float("%.3g" % rnd.choice([rnd.uniform(0.2, 0.7), rnd.uniform(1.5, 5.0)]))
        x0 = {s: float(v) for s, v in sp["x0"].items()}
        lam = sum(ref.rates(sp, x0, sp["params"], V, "stochvol", 0.0))
        n = rnd.randint(3, 6)
        dt = float("%.3g" % (rnd.uniform(0.3, 1.2) / max(lam, 1e-3)))
        tp = [dt * j for j in range(n)]
        if cap == "poisson":
            kp = ref.pval(sp["reactions"][0]["fields"]["k"], {}) * max(V, 1.0)
            m = sp["x0"]["A"] + kp * tp[-1]
            cap = int(m + 12 * math.sqrt(m) + 12)
        cases.append({"kind": "constV", "template": name, "spec": sp, "tp": tp, "V": V, "cap": cap, "runs": runs, "stage": 1, "safe_ok": "safe" in sims,
                      "seed": util.seed64(PROPERTY, tier, seed, "cv%d" % i)})
    ng = 60 if tier == "quick" else 2000
    for j in range(ng):
        dyadic = (j % 2 == 0)
        dt = 2.0 ** rnd.randint(-5, -2) if dyadic else float("%.3g" % rnd.uniform(0.03, 0.3))
        n = rnd.randint(20, 200)
        T = dt * (n - 1)
        vtype = rnd.choice(["sttv", "sttv", "sdv_const", "sdv_conserved"])
        model = rnd.choice(["firing", "none", "exhausting", "zero_start"])
        V0 = gen.nice(rnd, 0.3, 3)
        doubling = float("%.4g" % (T * rnd.uniform(0.2, 1.5)))
        divide = rnd.random() < 0.55
        if divide:
            # division after a fraction of the grid
            tdiv = T * rnd.uniform(0.1, 0.9)
            Vdiv = V0 * math.exp(math.log(2) / doubling * tdiv)
        else:
            Vdiv = V0 * math.exp(math.log(2) / doubling * T) * 4.0
        cases.append({"kind": "growth", "dt": dt, "n": n, "dyadic": dyadic, "vtype": vtype, "model": model, "V0": V0, "doubling": doubling,
                      "Vdiv": float("%.10g" % Vdiv), "divide": divide, "seed": util.seed64(PROPERTY, tier, seed, "g%d" % j) % (2 ** 31),
                      "route": rnd.choice(["simulator", "simulator", "psm"]), "safe": rnd.random() < 0.3,
                      # volume ticks finer than the grid (only without division: the division row is stated for ticks on the grid)
                      "tick_div": 1 if divide else rnd.choice([1, 1, 2, 4]),
                      # output grid that starts after the initial time 0 (an unrecorded burn-in): growth and division are
                      # still counted from the initial time
                      "skip": rnd.choice([0, 0, 1, 3, rnd.randint(1, max(1, n // 3))])})
    return cases


def run_case(case):
    return globals()["run_" + case["kind"]](case)


def run_constV(case):
    import numpy as np
    from vlib import cme
    from bioscrape.types import Volume
    from bioscrape.simulator import ModelCSimInterface, SafeModelCSimInterface, VolumeSSASimulator, py_simulate_model
    import bioscrape.random as brandom
    C = Counter()
    sp = case["spec"]
    tp = np.array(case["tp"], dtype=float)
    V = case["V"]
    M = specmod.build_model(sp, "ctor")
    cols = M.get_species_list()
    x0 = {s: int(v) for s, v in sp["x0"].items()}
    refd = cme.build_reference(sp, x0, tp, "stochvol", V, cap=case["cap"])
    ref1 = cme.build_reference(sp, x0, tp, "stoch", 1.0, cap=case["cap"])
    # does V matter?  (largest absolute difference between the V-scaled and unscaled marginals)
    vdiff = 0.0
    for a, b in zip(refd["marg"], ref1["marg"]):
        da = {s: a[i] for i, s in enumerate(refd["states"])}
        db = {s: b[i] for i, s in enumerate(ref1["states"])}
        for s in set(da) | set(db):
            vdiff = max(vdiff, abs(da.get(s, 0) - db.get(s, 0)))
    out = {}
    # less-travelled routes to the same law: the safe interface under the volume simulator, a Volume object / the safe flag /
    # the delay-capable volume simulator (the model has no delays) through py_simulate_model
    sims = ["volume_ssa", "psm_volume", "psm_delay_volume", "psm_volume_object"] + (["safe_volume_ssa", "psm_safe_volume"] if case.get("safe_ok") else [])
    for sim in sims:
        n = case["runs"] if sim == "volume_ssa" else (case["runs"] // 5 if sim == "safe_volume_ssa" else max(2000, case["runs"] // 25))
        X = np.empty((n, len(tp), len(cols)))
        seeds = util.splitmix64(case["seed"] + 7919 * case["stage"] + 13 * sims.index(sim))
        volbad = None
        if sim in ("volume_ssa", "safe_volume_ssa"):
            itf = ModelCSimInterface(M) if sim == "volume_ssa" else SafeModelCSimInterface(M)
            itf.py_set_dt(tp[1] - tp[0])
            S = VolumeSSASimulator()
            for i in range(n):
                if i % 500 == 0:
                    brandom.py_seed_random(next(seeds) or 1)
                v = Volume()
                v.py_set_volume(V)
                res = S.py_volume_simulate(itf, v, tp)
                X[i] = res.py_get_result()
                if i % 997 == 0 and not np.array_equal(res.py_get_volume(), np.full(len(tp), V)):
                    volbad = list(res.py_get_volume())
        else:
            for i in range(n):
                if i % 500 == 0:
                    brandom.py_seed_random(next(seeds) or 1)
                if sim == "psm_volume_object":
                    vo = Volume()
                    vo.py_set_volume(V)
                    kw = dict(volume=vo)
                elif sim == "psm_delay_volume":
                    kw = dict(volume=V, delay=True)
                elif sim == "psm_safe_volume":
                    kw = dict(volume=V, safe=True)
                else:
                    kw = dict(volume=V)
                X[i] = py_simulate_model(tp, Model=M, stochastic=True, return_dataframe=False, **kw).py_get_result()
        idx = cme.state_indices(X, cols, refd)
        r = cme.test_law(idx, refd, tp)
        r["n"] = n
        r["rejected"] = r["rejected"][:4]
        if volbad is not None:
            r["rejected"].append({"kind": "volume trace of a constant volume is not constant", "trace": volbad[:5]})
        out[sim] = r
        C["constant_volume_runs"] += n
        C["cells_tested"] += r["cells"]
    return {"viol": [], "counters": dict(C), "nontrivial": vdiff > 0.05 and cme.nontrivial_law(refd), "law": out, "vdiff": vdiff}


GROWTH_MODELS = {
    "firing": {"species": ["A", "B", "T"], "x0": {"A": 6, "B": 4, "T": 10}, "params": {"k1": 3.0, "k2": 2.0},
               "reactions": [{"type": "massaction", "reactants": ["A"], "products": ["B"], "fields": {"k": "k1"}},
                             {"type": "massaction", "reactants": ["B"], "products": ["A"], "fields": {"k": "k2"}}], "rules": []},
    "none": {"species": ["A", "B", "T"], "x0": {"A": 6, "B": 4, "T": 10}, "params": {}, "reactions": [], "rules": []},
    "exhausting": {"species": ["A", "B", "T"], "x0": {"A": 5, "B": 5, "T": 10}, "params": {"k1": 6.0},
                   "reactions": [{"type": "massaction", "reactants": ["A"], "products": ["B"], "fields": {"k": "k1"}}], "rules": []},
    "zero_start": {"species": ["A", "B", "T"], "x0": {"A": 0, "B": 10, "T": 10}, "params": {"k1": 6.0},
                   "reactions": [{"type": "massaction", "reactants": ["A"], "products": ["B"], "fields": {"k": "k1"}}], "rules": []},
}


def run_growth(case):
    import numpy as np
    from bioscrape.types import StochasticTimeThresholdVolume, StateDependentVolume
    from bioscrape.simulator import ModelCSimInterface, SafeModelCSimInterface, VolumeSSASimulator, py_simulate_model
    import bioscrape.random as brandom
    C = Counter({"growth_cases": 1})
    viol = util.ViolList()
    sp = GROWTH_MODELS[case["model"]]
    M = specmod.build_model(sp, "ctor")
    dt, n = case["dt"], case["n"]
    skip = int(case.get("skip", 0))
    tp = dt * (skip + np.arange(n))
    V0 = case["V0"]
    g = math.log(2) / case["doubling"]
    if skip:
        C["offset_grid_cases"] += 1
    x0 = M.get_species_array().copy()
    pv = np.array(M.get_parameter_values(), dtype=float).copy()
    brandom.py_seed_random(case["seed"])
    if case["vtype"] == "sttv":
        v = StochasticTimeThresholdVolume(case["doubling"], case["Vdiv"], 0.0)
        tdiv = math.log(case["Vdiv"] / V0) / g
        kind = "time"
    else:
        v = StateDependentVolume()
        if case["vtype"] == "sdv_const":
            expr = repr(g)
        else:
            expr = "%r*(A+B)/T" % g          # A+B is conserved and equals T
        v.setup(case["Vdiv"], 0.0, expr, M)
        kind = "volume"
    v.py_initialize(x0.copy(), pv.copy(), 0.0, V0)
    if case["route"] == "simulator":
        itf = SafeModelCSimInterface(M) if case["safe"] else ModelCSimInterface(M)
        itf.py_set_dt(dt / case.get("tick_div", 1))
        res = VolumeSSASimulator().py_volume_simulate(itf, v, tp.copy())
    else:
        res = py_simulate_model(tp.copy(), Model=M, stochastic=True, volume=v, safe=case["safe"], return_dataframe=False)
    X = np.array(res.py_get_result())
    Vt = np.array(res.py_get_volume(), dtype=float)
    tt = np.array(res.py_get_timepoints(), dtype=float)
    divided = bool(res.py_cell_divided())
    tag = "%s:%s" % (case["vtype"].split("_")[0], "zero-propensity" if case["model"] in ("none", "exhausting", "zero_start") else "firing")

    def bad(key, msg):
        viol.append({"key": "C11/%s:%s" % (key, tag), "msg": "%s model=%s dt=%g n=%d V0=%g doubling=%g Vdiv=%g route=%s: %s" % (
            case["vtype"], case["model"], dt, n, V0, case["doubling"], case["Vdiv"], case["route"], msg)})

    rows = len(tt)
    if not (len(Vt) == rows == X.shape[0]):
        bad("inconsistent-truncation", "lengths: times %d, volume %d, states %d" % (len(tt), len(Vt), X.shape[0]))
        return {"viol": viol, "counters": dict(C), "nontrivial": True}
    if not np.array_equal(tt, tp[:rows]):
        bad("time-axis", "time axis is not a prefix of the requested times")
    if rows >= 1:
        C["growth_rows_checked"] += rows
        if not (Vt > 0).all():
            bad("non-positive-volume", "volume trace has non-positive entries %r" % list(Vt[Vt <= 0][:3]))
        if (np.diff(Vt) < 0).any():
            bad("volume-decreases", "volume decreases at row %d" % int(np.argmax(np.diff(Vt) < 0)))
        tick = dt / (case.get("tick_div", 1) if case["route"] == "simulator" else 1)
        lo = V0 * np.exp(g * (tt - tick)) * (1 - 1e-9)
        hi = V0 * np.exp(g * tt) * (1 + 1e-9)
        if skip == 0:
            lo[0] = V0 * (1 - 1e-12)
        if ((Vt < lo) | (Vt > hi)).any():
            i = int(np.argmax((Vt < lo) | (Vt > hi)))
            bad("growth-law", "row %d (t=%g): volume %r outside [%r, %r] (= V0*exp(g*(t-dt)) .. V0*exp(g*t))" % (i, tt[i], Vt[i], lo[i], hi[i]))
        if X.shape[1] == 3:
            idx = M.get_species2index()
            if not np.all(X[:, idx["A"]] + X[:, idx["B"]] == 10):
                bad("state-corrupted", "A+B is not conserved in a reported row")
    # division
    if case["divide"]:
        C["division_cases"] += 1
        # expected last row: first grid index k with (time) tdiv <= t_k  /  (volume) V0*exp(g t_k) > Vdiv
        if kind == "time":
            k = int(math.ceil(tdiv / dt - 1e-12))
            near = abs(tdiv / dt - round(tdiv / dt)) < 1e-6
        else:
            k = int(math.floor(math.log(case["Vdiv"] / V0) / g / dt + 1e-12)) + 1
            near = abs(math.log(case["Vdiv"] / V0) / g / dt - round(math.log(case["Vdiv"] / V0) / g / dt)) < 1e-6
        k -= skip        # row index on a grid whose first point is skip*dt
        if k < 1:
            C["division_before_first_output"] += 1     # divides during the unrecorded part: not asserted
        elif k <= n - 1:
            exp_rows = k + 1
            slack = 0 if (case["dyadic"] and not near) else 1
            if not divided:
                bad("division-not-flagged", "division expected at row %d (of %d) but the result is not flagged as divided (rows returned %d)" % (k, n, rows))
            elif abs(rows - exp_rows) > slack:
                bad("division-row", "divided result has %d rows, expected %d (first grid time at which the volume model reports division)" % (rows, exp_rows))
        else:
            C["division_beyond_grid"] += 1
    else:
        if divided or rows != n:
            bad("spurious-division", "no division expected but rows=%d of %d, divided flag %s" % (rows, n, divided))
    doublings = g * tp[-1] / math.log(2)
    return {"viol": viol[:4], "counters": dict(C), "nontrivial": doublings >= 1 or case["divide"]}


def aggregate(cases, records, tier, seed, run_more):
    viol, ev = [], {"constant_volume": [], "stage1_unconfirmed": 0}
    retry = []
    for c, r in zip(cases, records):
        if not r or "law" not in r:
            continue
        ev["constant_volume"].append({"template": c["template"], "V": c["V"], "max_marginal_shift_vs_V1": r.get("vdiff"),
                                      "sims": {k: {"n": s["n"], "cells": s["cells"], "min_tail": s["min_p"], "rejections": len(s["rejected"])} for k, s in r["law"].items()}})
        if any(s["rejected"] for s in r["law"].values()):
            c2 = dict(c)
            c2["stage"] = 2
            c2["runs"] = c["runs"] * 4
            retry.append((c, r, c2))
    if retry:
        recs2 = run_more([c2 for _, _, c2 in retry])
        for (c, r1, c2), r2 in zip(retry, recs2):
            if r2 and "law" in r2:
                conf = [k for k, s in r2["law"].items() if s["rejected"] and r1["law"][k]["rejected"]]
                if conf:
                    for k in conf:
                        viol.append({"key": "C11/constant-volume-law:%s" % c["template"], "case": c2,
                                     "msg": "law of %s at V=%g (%s) rejected at both stages: %r ; %r" % (k, c["V"], c["template"], r1["law"][k]["rejected"][:2], r2["law"][k]["rejected"][:2])})
                else:
                    ev["stage1_unconfirmed"] += 1
    return {"viol": viol, "evidence": ev}

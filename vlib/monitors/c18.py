"""C18 - reported Jacobians and parameter sensitivities match analytic derivatives."""
import math
from collections import Counter
from vlib import util, ref, gen, spec as specmod

PROPERTY = "C18"
RULE = ("smooth networks (mass action orders 1-4 with repeats, Hill families with integer and fractional n, general rational/exponential "
        "rates; 2-5 species; numeric and named parameters), states in [0.5,10]^n, parameters in [0.1,10]; py_get_jacobian and "
        "py_get_sensitivity_to_parameter for every parameter name (dummy names included) with the four difference schemes are compared with "
        "sympy derivatives of the reference rate equations; the tolerance is the scheme's truncation bound (h=0.01, higher derivative maximised "
        "over the stencil) x2 + rounding; an icontract snapshot/postcondition on compute_J / compute_Zj checks that the parameter dictionary is "
        "unchanged; non-trivial = entry with non-zero analytic value that is non-linear in the differentiated variable; distinct by model x state x method x parameter")
ASSUMPTIONS = ["sympy differentiation of vlib/ref.py's rate equations is the analytic derivative",
               "error bound: h^4/30*M5, h^2/6*M3, h/2*M2 (x2) + 1e-9(1+|entry|) for np.round(.,10) + 50 eps max|f|/h"]
RUN_OPTS = {"batch_size": 4, "timeout_per_case": 120.0}
MINIMA = {"*": {"jacobian_entries": 1500, "sensitivity_entries": 1500, "nontrivial_entries": 300, "contract_evaluations": 200, "passes_after_inplace_update": 20, "evaluations_at_nonzero_time": 40, "helper_object_evaluations": 100}}
METHODS = ["fourth_order_central_difference", "central_difference", "forward_difference", "backward_difference"]


def gen_case(rnd):
    nsp = rnd.randint(2, 5)
    species = rnd.sample(gen.SPECIES_POOL, nsp)
    params = {}
    rx = []
    for i in range(rnd.randint(1, 5)):
        tag = "r%d" % i
        ty = rnd.choice(["massaction"] * 4 + list(gen.HILL) + ["general", "general"])
        if ty == "massaction":
            order = rnd.randint(0, 4)
            ms = gen.multiset(rnd, species, order)
            if ms and rnd.random() < 0.4:
                ms = [ms[0]] * order
            r = {"type": "massaction", "reactants": ms, "products": gen.multiset(rnd, species, rnd.randint(0, 2)),
                 "fields": {"k": gen.pfield(rnd, "k_" + tag, gen.nice(rnd, 0.1, 10), params)}}
        elif ty in gen.HILL:
            f = gen.hill_rxn(rnd, ty, species, params, tag, lo=0.1, hi=10)
            for key in ("k", "K", "n"):
                pass
            r = {"type": ty, "reactants": gen.multiset(rnd, species, rnd.randint(0, 1)), "products": gen.multiset(rnd, species, rnd.randint(0, 2)), "fields": f}
        else:
            r = {"type": "general", "reactants": gen.multiset(rnd, species, rnd.randint(0, 1)), "products": gen.multiset(rnd, species, rnd.randint(1, 2)),
                 "fields": {}, "ast": gen.general_ast(rnd, species, params, tag, time_dep=rnd.random() < 0.3)}
        if rnd.random() < 0.2:
            r["delay"] = gen.delay_spec(rnd, species, {}, tag, named_prob=0.0)
            r["delay"]["reactants"] = []
        rx.append(r)
    for k in list(params):
        params[k] = float("%.4g" % min(max(params[k], 0.1), 10.0))
    # "parameters >= 0.1": also large ones (the difference step of a parameter is an absolute 0.01)
    big = [k for k in params if k.startswith(("k_", "g_", "K_"))]
    if big and rnd.random() < 0.4:
        kb = rnd.choice(big)
        params[kb] = float("%.4g" % (params[kb] * rnd.choice([300.0, 1000.0, 2500.0])))
    for r in rx:
        if r["type"] in gen.HILL:
            for key in ("k", "K"):
                v = r["fields"][key]
                if not isinstance(v, str) or _isnum(v):
                    r["fields"][key] = float("%.4g" % min(max(float(v), 0.1), 10.0))
    states = [{s: float("%.4g" % rnd.uniform(0.5, 10)) for s in species} for _ in range(2)]
    # a state close to (but inside) the boundary of the positive orthant: one or two components of a few step sizes h = 0.01
    small = {s: float("%.4g" % rnd.uniform(0.5, 10)) for s in species}
    for s in rnd.sample(species, rnd.randint(1, min(2, len(species)))):
        small[s] = rnd.choice([0.02, 0.025, 0.03, 0.035, 0.05, 0.08])
    states.append(small)
    return {"spec": {"species": species, "x0": {s: 1.0 for s in species}, "params": params, "reactions": rx, "rules": []}, "states": states,
            "t": float("%.3g" % rnd.uniform(0, 5)),
            # in-place parameter changes on the SAME model object between analysis passes (a history): every pass must be
            # computed at the then-current values
            "updates": [{"how": rnd.choice(["set_params", "set_parameter"]), "n": rnd.randint(1, 3), "seed": rnd.getrandbits(30)}
                        for _ in range(rnd.choice([0, 1, 1, 2]))]}


def _isnum(v):
    try:
        float(v)
        return True
    except (TypeError, ValueError):
        return False


def generate(tier, seed):
    rnd = util.rng(PROPERTY, tier, seed, "cases")
    return [gen_case(rnd) for _ in range(45 if tier == "quick" else 1200)]


_contract_log = []


def child_setup():
    import icontract
    import bioscrape.analysis as an

    def snap(self):
        return dict(self.M.get_parameter_dictionary())

    def params_unchanged(self, OLD):
        now = dict(self.M.get_parameter_dictionary())
        _contract_log.append((OLD.pd == now, OLD.pd, now))
        return True

    for name in ("compute_J", "compute_Zj"):
        f = getattr(an.SensitivityAnalysis, name)
        g = icontract.snapshot(snap, name="pd")(icontract.ensure(params_unchanged, error=AssertionError)(f))
        setattr(an.SensitivityAnalysis, name, g)


def to_sympy(node, X, P, tsym):
    import sympy
    k = node[0]
    if k == "num":
        return sympy.Float(node[1]) if node[1] != int(node[1]) else sympy.Integer(int(node[1]))
    if k == "sp":
        return X[node[1]]
    if k == "par":
        return P[node[1]]
    if k == "t":
        return tsym
    a = to_sympy(node[1], X, P, tsym)
    if k == "neg":
        return -a
    if k == "exp":
        return sympy.exp(a)
    if k == "log":
        return sympy.log(a)
    b = to_sympy(node[2], X, P, tsym)
    return {"+": a + b, "-": a - b, "*": a * b, "/": a / b, "^": a ** b}[k]


def run_case(case):
    import numpy as np
    import sympy
    from bioscrape.analysis import py_get_jacobian, py_get_sensitivity_to_parameter
    C = Counter()
    viol = util.ViolList()
    sp = case["spec"]
    if len(sp["reactions"]) % 2 == 0 or any(r["type"] == "general" for r in sp["reactions"]):
        # history: a twin with the same reactions and parameters but the species declared in the opposite order was built (and
        # differentiated once) in this process before; the model under test owes nothing to it
        try:
            twin = specmod.build_model(dict(sp, species=list(reversed(sp["species"]))), "ctor")
            py_get_jacobian(twin, np.array([1.0 + 0.5 * j for j in range(len(sp["species"]))]))
            C["models_built_after_a_reordered_twin"] += 1
        except Exception:
            pass
    M = specmod.build_model(sp, "ctor")
    species = M.get_species_list()
    defs = M.__getstate__()[17]          # reaction definitions with dummy parameter names substituted
    pdict = dict(M.get_parameter_dictionary())
    X = {s: sympy.Symbol("x_" + s, positive=True) for s in species}
    P = {p: sympy.Symbol("p_" + str(i), positive=True) for i, p in enumerate(pdict)}
    tsym = sympy.Symbol("t")
    S, Sd = ref.stoich(sp)
    f = {s: sympy.Integer(0) for s in species}
    for i, r in enumerate(sp["reactions"]):
        fields = defs[i][3]
        if r["type"] == "massaction":
            rate = P[fields["k"]]
            for s in ref.ma_multiset(r):
                rate = rate * X[s]
        elif r["type"] in ref.HILL:
            q = (X[fields["s1"]] / P[fields["K"]]) ** P[fields["n"]]
            rate = P[fields["k"]] * q / (1 + q) if "positive" in r["type"] else P[fields["k"]] / (1 + q)
            if r["type"].startswith("proportional"):
                rate = rate * X[fields["d"]]
        else:
            rate = to_sympy(r["ast"], X, P, tsym)
        for s in species:
            c = S[i].get(s, 0) + Sd[i].get(s, 0)
            if c:
                f[s] = f[s] + c * rate
    pvals = {P[p]: float(v) for p, v in pdict.items()}
    h = 0.01
    eps = 2.2e-16
    nontrivial = False
    order_of = {"fourth_order_central_difference": (5, h ** 4 / 30.0), "central_difference": (3, h ** 2 / 6.0),
                "forward_difference": (2, h / 2.0), "backward_difference": (2, h / 2.0)}

    def bound(expr, var, x0sub, v0, method):
        q, coef = order_of[method]
        d = sympy.diff(expr, var, q)
        if d == 0:
            return 0.0
        fn = sympy.lambdify(var, d.subs(x0sub), "math")
        span = 2 * h if method.startswith("fourth") else h
        mx = 0.0
        for j in range(9):
            u = v0 - span + j * (2 * span) / 8.0
            try:
                mx = max(mx, abs(fn(u)))
            except Exception:
                return math.inf
        return coef * mx

    import random as _random
    helper = None
    try:
        from bioscrape.analysis import SensitivityAnalysis
        from bioscrape.simulator import py_simulate_model
        helper = SensitivityAnalysis(M)
        other = specmod.build_model(dict(sp, params={k_: (v_ * 1.9 + 0.3 if isinstance(v_, (int, float)) else v_) for k_, v_ in sp["params"].items()}), "ctor")
        SensitivityAnalysis(other)
        py_get_jacobian(other, np.array([1.5] * len(species)))
        try:
            py_simulate_model(np.linspace(0, 0.05, 3), Model=other, stochastic=False)
        except Exception:
            pass
    except Exception as e:
        viol.append({"key": "C18/helper-raises", "msg": "building SensitivityAnalysis helpers raised %r" % (e,)})
    passes = [None] + list(case.get("updates", []))
    for pi, upd in enumerate(passes):
      if upd is not None:
        rr = _random.Random(upd["seed"])
        names = rr.sample(sorted(pdict), min(upd["n"], len(pdict)))
        change = {nm: float("%.4g" % min(max(pdict[nm] * rr.uniform(0.5, 2.0), 0.1), 10.0)) for nm in names}
        if upd["how"] == "set_params":
            M.set_params(change)
        else:
            for nm, v in change.items():
                M.set_parameter(nm, v)
        pdict.update(change)
        got_pd = {k: float(v) for k, v in M.get_parameter_dictionary().items()}
        if got_pd != {k: float(v) for k, v in pdict.items()}:
            return {"error": "harness: parameter update %r not reflected by the model: %r" % (change, got_pd)}
        pvals = {P[p]: float(v) for p, v in pdict.items()}
        C["passes_after_inplace_update"] += 1
      for si, st in enumerate(case["states"] if pi == 0 else case["states"][1:] + case["states"][:1]):
          if pi > 0 and si > 0:
              break
          # the first state of the first pass is evaluated at the default time (no keyword), every other one at the case's time
          # t != 0: the rate equations' derivatives are asked for "at any state", also along a trajectory
          tkw = {} if (pi == 0 and si == 0) else {"time": case["t"]}
          if tkw:
              C["evaluations_at_nonzero_time"] += 1
          xs = np.array([st[s] for s in species])
          sub_all = dict(pvals)
          sub_all.update({X[s]: st[s] for s in species})
          sub_all[tsym] = tkw.get("time", 0.0)
          fmax = max(abs(float(f[s].subs(sub_all))) for s in species) if species else 0.0
          # second route: a SensitivityAnalysis helper object that was built at the start of the case and is used only now, after
          # helpers for another model were built and another model was simulated deterministically in between
          # (the helper goes first: a function-route call for this model would make this model the most recently used one again)
          routes = (["helper"] if (helper is not None and pi == 0 and si == 0) else []) + ["function"]
          for method in [(m_, r_) for r_ in routes for m_ in METHODS]:
              method, route = method
              before = dict(M.get_parameter_dictionary())
              try:
                  J = py_get_jacobian(M, xs.copy(), method=method, **tkw) if route == "function" else helper.compute_J(xs.copy(), method=method, **tkw)
                  if route == "helper":
                      C["helper_object_evaluations"] += 1
              except Exception as e:
                  viol.append({"key": "C18/jacobian-raises", "msg": "py_get_jacobian(method=%s) raised %r" % (method, e)})
                  continue
              if dict(M.get_parameter_dictionary()) != before:
                  viol.append({"key": "C18/parameters-changed", "msg": "py_get_jacobian(method=%s) changed the parameter dictionary" % method})
              if J.shape != (len(species), len(species)):
                  viol.append({"key": "C18/jacobian-shape", "msg": "Jacobian shape %s" % (J.shape,)})
                  continue
              for i, si in enumerate(species):
                  for j, sj in enumerate(species):
                      sub = {k: v for k, v in sub_all.items() if k != X[sj]}
                      dexpr = sympy.diff(f[si], X[sj])
                      exact = float(dexpr.subs(sub_all))
                      tol = 2 * bound(f[si], X[sj], sub, st[sj], method) + 1e-9 * (1 + abs(exact)) + 50 * eps * fmax / h
                      C["jacobian_entries"] += 1
                      if exact != 0 and sympy.diff(dexpr, X[sj]) != 0:
                          nontrivial = True
                          C["nontrivial_entries"] += 1
                      if not (abs(J[i, j] - exact) <= tol):
                          viol.append({"key": "C18/jacobian:%s" % method,
                                       "msg": "J[%s,%s] (method %s) = %r, analytic d f_%s/d %s = %r, tolerance %.3g at state %s" % (si, sj, method, J[i, j], si, sj, exact, tol, st)})
              for pname in pdict:
                  before = dict(M.get_parameter_dictionary())
                  try:
                      Z = (py_get_sensitivity_to_parameter(M, xs.copy(), pname, method=method, **tkw) if route == "function"
                           else helper.compute_Zj(xs.copy(), pname, method=method, **tkw))
                  except Exception as e:
                      viol.append({"key": "C18/sensitivity-raises", "msg": "py_get_sensitivity_to_parameter(%s, method=%s) raised %r" % (pname, method, e)})
                      continue
                  after = dict(M.get_parameter_dictionary())
                  if after != before:
                      viol.append({"key": "C18/parameters-changed", "msg": "py_get_sensitivity_to_parameter(%s, %s) changed parameters: %r -> %r" % (
                          pname, method, {k: before[k] for k in before if before[k] != after.get(k)}, {k: after[k] for k in after if before.get(k) != after[k]})})
                      M.set_params(before)
                  sub = {k: v for k, v in sub_all.items() if k != P[pname]}
                  for i, si in enumerate(species):
                      dexpr = sympy.diff(f[si], P[pname])
                      exact = float(dexpr.subs(sub_all))
                      tol = 2 * bound(f[si], P[pname], sub, pdict[pname], method) + 1e-9 * (1 + abs(exact)) + 50 * eps * fmax / h
                      C["sensitivity_entries"] += 1
                      if exact != 0 and sympy.diff(dexpr, P[pname]) != 0:
                          nontrivial = True
                          C["nontrivial_entries"] += 1
                      if not (abs(Z[i] - exact) <= tol):
                          viol.append({"key": "C18/sensitivity:%s" % method,
                                       "msg": "dF/d%s[%s] (method %s) = %r, analytic %r, tolerance %.3g at state %s" % (pname, si, method, Z[i], exact, tol, st)})
          if len(viol) > 4:
              break
    C["contract_evaluations"] += len(_contract_log)
    for ok, old, now in _contract_log:
        if not ok:
            viol.append({"key": "C18/parameters-changed", "msg": "contract on SensitivityAnalysis: parameter dictionary changed across the call: %r -> %r" % (old, now)})
    del _contract_log[:]
    return {"viol": viol[:5], "counters": dict(C), "nontrivial": nontrivial, "nontrivial_n": C["nontrivial_entries"]}

"""C14 - exported kinetic laws equal the model's own rate laws (read with libsbml only, annotations ignored)."""
import math
from collections import Counter
from vlib import util, ref, gen, spec as specmod

PROPERTY = "C14"
RULE = ("models over every propensity type and reaction order 0-4 (repeats, catalysts), named and numeric parameters, general rates over "
        "+ - * / ^ exp log without t/volume, optional delays and rules; deterministic and stochastic export; the written file is read with "
        "libsbml only: every <ci> of every kinetic law must be defined in the document, the law evaluated by the harness's AST evaluator at "
        "8 states (non-negative reals for the deterministic export, integers around each multiplicity for the stochastic export) must equal "
        "the propensity object's deterministic / stochastic rate, species-reference stoichiometries must equal the multiplicities; "
        "non-trivial = reaction of order >= 2 or with non-unit parameters; distinct by spec x export kind")
ASSUMPTIONS = ["libsbml reader/AST API trusted; AST semantics from vlib/sbmlref.py (log without base is log10, ln is natural)",
               "a model that bioscrape refuses to export is an explicit refusal (counted), not a violation"]
RUN_OPTS = {"batch_size": 12, "timeout_per_case": 30.0}
MINIMA = {"*": {"kinetic_laws_evaluated": 400, "law_evaluations": 3000, "stoichiometries_checked": 400, "min_type_count": 20}}
TYPES = ["massaction0", "massaction1", "massaction2", "massaction3", "massaction4"] + list(gen.HILL) + ["general"]


def gen_general(rnd, species, params, tag):
    P = lambda nm, lo=0.05, hi=5: (params.__setitem__("%s_%s" % (nm, tag), gen.nice(rnd, lo, hi)) or ["par", "%s_%s" % (nm, tag)])
    s = lambda: ["sp", rnd.choice(species)]
    form = rnd.randrange(7)
    if form == 0:
        return ["*", P("g"), s()]
    if form == 1:
        return ["/", ["*", P("g"), s()], ["+", P("h"), s()]]
    if form == 2:
        return ["*", P("g"), ["exp", ["neg", ["*", ["num", float("%.2g" % rnd.uniform(0.01, 0.3))], s()]]]]
    if form == 3:
        return ["*", P("g"), ["log", ["+", s(), ["num", 1]]]]
    if form == 4:
        return ["*", ["*", P("g"), s()], ["^", s(), ["num", rnd.choice([2, 3, 0.5])]]]
    if form == 5:
        return ["+", ["num", float("%.3g" % rnd.uniform(0.1, 3))], ["/", s(), ["+", ["num", 1], ["^", ["/", s(), P("K", 0.5, 10)], ["num", 2]]]]]
    return ["-", ["*", P("g", 2, 5), ["+", s(), ["num", 1]]], ["*", ["num", 0.5], P("h", 0.05, 1)]]


def gen_spec(rnd, rules=True, delays=True):
    nsp = rnd.randint(2, 5)
    species = rnd.sample(["A", "B", "G", "X_1", "P2", "Zs", "d_sp", "C", "O", "Q", "N", "I", "E", "S", "r1", "k"], nsp)
    params = {}
    rx = []
    for i in range(rnd.randint(1, 5)):
        tag = "x%d" % i
        ty = rnd.choice(["massaction"] * 5 + list(gen.HILL) + ["general", "general"])
        if ty == "massaction":
            order = rnd.randint(0, 4)
            ms = gen.multiset(rnd, species, order)
            if order >= 2 and rnd.random() < 0.4:
                ms = [ms[0]] * order
            prods = gen.multiset(rnd, species, rnd.randint(0, 3))
            if ms and rnd.random() < 0.25:
                prods += [ms[0]]
            r = {"type": "massaction", "reactants": ms, "products": prods, "fields": {"k": gen.pfield(rnd, "k_" + tag, gen.nice(rnd, 0.01, 10) if rnd.random() < 0.9 else 0.0, params)}}      # a tenth of the rate constants are exactly 0
        elif ty in gen.HILL:
            r = {"type": ty, "reactants": gen.multiset(rnd, species, rnd.randint(0, 2)), "products": gen.multiset(rnd, species, rnd.randint(0, 2)),
                 "fields": gen.hill_rxn(rnd, ty, species, params, tag, lo=0.05, hi=20)}
        else:
            r = {"type": "general", "reactants": gen.multiset(rnd, species, rnd.randint(0, 2)), "products": gen.multiset(rnd, species, rnd.randint(0, 2)),
                 "fields": {}, "ast": gen_general(rnd, species, params, tag)}
            if not r["reactants"] and not r["products"]:
                r["products"] = [rnd.choice(species)]
        if delays and rnd.random() < 0.3:
            r["delay"] = gen.delay_spec(rnd, species, params, tag)
        rx.append(r)
    # parameter names with a leading underscore are valid SBML identifiers too
    for r in rx:
        if r["type"] != "general" and rnd.random() < 0.12:
            for key in ("k", "K", "n"):
                v = r["fields"].get(key)
                if isinstance(v, str) and v in params and not v.startswith("_") and rnd.random() < 0.7:
                    params["_" + v] = params.pop(v)
                    r["fields"][key] = "_" + v
    rl = []
    sp = {"species": species, "x0": {s: float(rnd.randint(0, 9)) if rnd.random() < 0.7 else float("%.4g" % rnd.uniform(0, 9)) for s in species},
          "params": params, "reactions": rx, "rules": rl}
    return sp


def states_for(rnd, sp, integer):
    out = []
    mm = Counter()
    for r in sp["reactions"]:
        for s, m in Counter(r["reactants"]).items():
            mm[s] = max(mm[s], m)
    for j in range(8):
        x = {}
        for s in sp["species"]:
            if integer:
                m = mm.get(s, 1)
                x[s] = float(rnd.choice([0, max(m - 1, 0), m, m + 1, rnd.randint(0, 7), rnd.randint(1, 9)]))
            else:
                x[s] = float("%.5g" % rnd.uniform(0, 20)) if rnd.random() < 0.9 else 0.0
        out.append(x)
    return out


def generate(tier, seed):
    rnd = util.rng(PROPERTY, tier, seed, "cases")
    n = 280 if tier == "quick" else 5000
    cases = []
    for i in range(n):
        sp = gen_spec(rnd)
        stoch = (i % 2 == 1)
        cases.append({"spec": sp, "stochastic": stoch, "states": states_for(rnd, sp, stoch), "prior_export": [None, "other", "fresh"][i % 3]})
    return cases


def cls_of(r):
    return "massaction%d" % len(ref.ma_multiset(r)) if r["type"] == "massaction" else r["type"]


def run_case(case):
    import os, tempfile, shutil
    import numpy as np
    import libsbml as L
    from vlib import sbmlref
    C = Counter()
    tc = Counter()
    viol = util.ViolList()
    sp = case["spec"]
    M = specmod.build_model(sp, "ctor")
    tmp = tempfile.mkdtemp(prefix="c14-", dir="/var/tmp")
    nontrivial = False
    try:
        path = os.path.join(tmp, "m.xml")
        if case.get("prior_export", "other") is not None:
            # history: the same model (or an identical freshly built one) was exported before in the OTHER mode in this process
            try:
                (M if case.get("prior_export", "other") == "other" else specmod.build_model(sp, "ctor")).write_sbml_model(
                    os.path.join(tmp, "prior.xml"), stochastic_model=not case["stochastic"])
                C["exports_after_an_export_in_the_other_mode"] += 1
            except Exception:
                pass
        if case.get("prior_export", "other") == "other" and sp["params"]:
            # ... and its rate constants were changed in place (set_params) since that earlier export
            import random as _r
            rr_ = _r.Random(len(sp["reactions"]) * 7919 + len(sp["params"]))
            ch_ = {k_: float("%.4g" % (float(v_) * rr_.uniform(1.5, 3.0))) for k_, v_ in sp["params"].items() if k_.startswith(("k_", "g_", "h_"))}
            if ch_:
                M.set_params(ch_)
                C["exports_after_in_place_value_changes"] += 1
        try:
            M.write_sbml_model(path, stochastic_model=case["stochastic"])
        except Exception as e:
            if "zz_scribbled" in str(e) or "zz_extra" in str(e):
                # the export tripped over what the harness wrote into ITS OWN lists / dictionaries after the model was built
                return {"viol": [{"key": "%s/export-follows-callers-containers" % PROPERTY,
                                  "msg": "export raised %r: the model still refers to the caller's own lists / dictionaries" % (e,)}],
                        "counters": dict(C), "nontrivial": True}
            C["rejected_at_export"] += 1
            return {"viol": [], "counters": dict(C), "nontrivial": False, "refused": repr(e)[:150]}
        d = L.readSBML(path)
        if d.getNumErrors(L.LIBSBML_SEV_ERROR) + d.getNumErrors(L.LIBSBML_SEV_FATAL) > 0:
            viol.append({"key": "C14/unreadable-document", "msg": "libsbml reports read errors: %s" % d.getErrorLog().toString()[:300]})
            return {"viol": viol, "counters": dict(C), "nontrivial": False}
        m = d.getModel()
        sids = set(s.getId() for s in m.getListOfSpecies())
        gpar = {p.getId(): p.getValue() for p in m.getListOfParameters()}
        comp = {c.getId(): c.getSize() for c in m.getListOfCompartments()}
        if m.getNumReactions() != len(sp["reactions"]):
            viol.append({"key": "C14/reaction-count", "msg": "%d reactions written for %d in the model" % (m.getNumReactions(), len(sp["reactions"]))})
            return {"viol": viol, "counters": dict(C), "nontrivial": False}
        props = M.get_propensities()
        pv = np.array(M.get_parameter_values(), dtype=float)
        idx = M.get_species2index()
        for ri, r in enumerate(sp["reactions"]):
            rx = m.getReaction(ri)
            kl = rx.getKineticLaw()
            cl = cls_of(r)
            hill = r["type"] in ref.HILL
            mech = "hill-kinetic-law" if hill else ("general-rate" if r["type"] == "general" else "massaction-%s" % ("stochastic" if case["stochastic"] else "deterministic"))
            # stoichiometries
            for lst, want in ((rx.getListOfReactants(), Counter(r["reactants"])), (rx.getListOfProducts(), Counter(r["products"]))):
                got = Counter()
                for sr in lst:
                    got[sr.getSpecies()] += sr.getStoichiometry()
                C["stoichiometries_checked"] += 1
                if dict(got) != {k: float(v) for k, v in want.items()}:
                    viol.append({"key": "C14/stoichiometry", "msg": "reaction %d: document stoichiometry %r, model multiplicities %r" % (ri, dict(got), dict(want))})
            ast = kl.getMath()
            loc = {kl.getLocalParameter(i).getId(): kl.getLocalParameter(i).getValue() for i in range(kl.getNumLocalParameters())}
            names = sbmlref.ast_names(ast)
            undefined = [n for n in names if n not in sids and n not in gpar and n not in loc and n not in comp]
            C["kinetic_laws_evaluated"] += 1
            tc[cl] += 1
            if undefined and all(u.startswith("_") and u[1:] in gpar for u in undefined):
                # mechanism: the writer strips a leading underscore from the parameter's id but not from its uses
                viol.append({"key": "C14/leading-underscore-parameter",
                             "msg": "reaction %d (%s %r): kinetic law %s refers to %r, but the parameter was written with id %r" % (
                                 ri, r["type"], r["fields"], L.formulaToL3String(ast), undefined, [u[1:] for u in undefined])})
                continue
            unset = [n for n in names if n in gpar and n not in loc and n not in sids and not m.getParameter(n).isSetValue()]
            if unset:
                viol.append({"key": "C14/%s:parameter-without-value" % mech,
                             "msg": "reaction %d (%s %r): kinetic law %s uses the global parameter(s) %r, which the document declares without a value" % (
                                 ri, r["type"], r["fields"], L.formulaToL3String(ast), unset)})
                continue
            if undefined or sbmlref.ast_has_unknown_function(ast):
                viol.append({"key": "C14/%s:undefined-identifier" % mech if not hill else "C14/hill-kinetic-law",
                             "msg": "reaction %d (%s %r): kinetic law %s refers to %r which the document does not define" % (
                                 ri, r["type"], r["fields"], L.formulaToL3String(ast), undefined)})
                if hill:
                    continue
            for st in case["states"]:
                x = specmod.state_vec(M, st)
                own = props[ri].py_get_stochastic_propensity(x.copy(), pv.copy(), 0.0) if case["stochastic"] else props[ri].py_get_propensity(x.copy(), pv.copy(), 0.0)
                env = lambda nm: loc[nm] if nm in loc else (st[nm] if nm in sids else (gpar[nm] if nm in gpar else comp[nm]))
                try:
                    val = sbmlref.ast_eval(ast, env)
                except (ref.Undefined, KeyError, sbmlref.Unsupported):
                    C["skipped_undefined"] += 1
                    continue
                if not math.isfinite(own):
                    C["skipped_undefined"] += 1
                    continue
                C["law_evaluations"] += 1
                if own > 0 and (len(ref.ma_multiset(r)) >= 2 if r["type"] == "massaction" else True):
                    nontrivial = True
                if not math.isfinite(val) or abs(val - own) > 1e-10 * max(abs(val), abs(own)) + 1e-300:
                    viol.append({"key": "C14/%s%s" % (mech, "" if hill else ":wrong-value"),
                                 "msg": "reaction %d (%s %r, %s export): kinetic law %s = %r at %s, the model's rate is %r" % (
                                     ri, r["type"], r["fields"] if r["type"] != "general" else ref.to_str(r["ast"]),
                                     "stochastic" if case["stochastic"] else "deterministic", L.formulaToL3String(ast), val, st, own)})
                    break
        return {"viol": viol[:6], "counters": dict(C), "nontrivial": nontrivial, "tc": dict(tc)}
    finally:
        shutil.rmtree(tmp, ignore_errors=True)


def aggregate(cases, records, tier, seed, run_more):
    tc = Counter()
    refs = Counter()
    for r in records:
        if r and "tc" in r:
            for k, v in r["tc"].items():
                tc[k] += v
        if r and r.get("refused"):
            refs[r["refused"]] += 1
    return {"counters": {"min_type_count": min(tc.get(t, 0) for t in TYPES)}, "evidence": {"laws_by_type": dict(tc), "export_refusals": dict(refs.most_common(6))}}

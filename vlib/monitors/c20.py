"""C20 - the delay queue delivers each entry once, in order, at the nearest grid time.

History + executable model: every operation history is replayed against the real ArrayDelayQueue and
against a small sequential model; the k-th add carries amount 2^k so the per-slot totals decode uniquely."""
import itertools, random, math
from vlib import util

PROPERTY = "C20"
RULE = ("histories over {add(rxn, requested time), read-and-advance, copy, partition, set_current_time} on "
        "ArrayDelayQueue (1-2 reactions, 2-4 slots, dyadic dt, every grid start time); all histories up to a length "
        "bound over a discretised alphabet are enumerated, plus seeded random histories up to length 80; the k-th add "
        "carries amount 2^k (unique decoding); non-trivial = >=2 adds landing in different slots and >=1 wrap-around or clamp; "
        "distinct by history")
ASSUMPTIONS = ["requested times are never exactly half-way between two grid times", "grid steps are exactly representable"]
RUN_OPTS = {"batch_size": 4, "timeout_per_case": 120.0}
EXHAUSTIVE = {"quick": True, "thorough": True}
MINIMA = {"*": {"histories": 1000, "nontrivial_histories": 1000, "reads_compared": 5000, "same_clock_sets": 50}}
SANITIZE_TIERS = ("thorough",)

RELS = [-1.3, 0.0, 0.4, 0.6, 1.0, "last+0.3", "beyond"]


def alphabet(R):
    ops = []
    for rel in RELS:
        for r in range(R):
            ops.append(["add", rel, r])
    ops.append(["adv"])
    ops.append(["copy"])
    return ops


def generate(tier, seed):
    cases = []
    L = 5 if tier == "quick" else 6
    # exhaustive part, partitioned by (cols, R, dt, start, first op)
    for cols in (2, 3, 4):
        for R in (1, 2):
            if R == 2 and cols == 4 and tier == "quick":
                LL = L - 1
            else:
                LL = L
            if R == 2:
                LL = min(LL, 4 if tier == "quick" else 5)
            for dt, start in ((0.5, 0.0), (0.125, 1.5), (2.0, -4.0)):
                for first in range(len(alphabet(R))):
                    cases.append({"kind": "enum", "cols": cols, "R": R, "dt": dt, "start": start, "len": LL, "first": first})
    nrand = 40 if tier == "quick" else 600
    per = 250 if tier == "quick" else 1500
    for i in range(nrand):
        cases.append({"kind": "random", "seed": util.seed64(PROPERTY, tier, seed, "rand%d" % i), "n": per})
    for i in range(nrand // 2):
        cases.append({"kind": "partition", "seed": util.seed64(PROPERTY, tier, seed, "part%d" % i), "n": per // 2})
    return cases


def sanitize_subset(cases):
    return [c for c in cases if c["kind"] != "enum"][:60] + [c for c in cases if c["kind"] == "enum"][:40]


# ---------------------------------------------------------------- sequential model

class QModel:
    def __init__(self, R, cols, dt, current):
        self.R, self.cols, self.dt = R, cols, dt
        self.clock = current + dt
        self.slots = [[0.0] * R for _ in range(cols)]

    def copy(self):
        m = QModel(self.R, self.cols, self.dt, 0.0)
        m.clock = self.clock
        m.slots = [list(s) for s in self.slots]
        return m

    def nearest(self, time):
        idx = math.floor((time - self.clock) / self.dt + 0.5)
        return min(max(idx, 0), self.cols - 1)

    def add(self, time, rxn, amount):
        i = self.nearest(time)
        self.slots[i][rxn] += amount
        return i

    def read_advance(self):
        t = self.clock
        out = self.slots.pop(0)
        self.slots.append([0.0] * self.R)
        self.clock += self.dt
        return t, out

    def set_current_time(self, t):
        self.clock = t + self.dt


def req_time(m, rel):
    if rel == "last+0.3":
        return m.clock + (m.cols - 1 + 0.3) * m.dt
    if rel == "beyond":
        return m.clock + (m.cols + 2.4) * m.dt
    return m.clock + rel * m.dt


class Run:
    """One history against real queue(s) + model(s)."""

    def __init__(self, R, cols, dt, start, ADQ, np):
        self.np = np
        self.pairs = [(ADQ(np.zeros((R, cols)), dt, start), QModel(R, cols, dt, start))]
        self.cur = 0
        self.k = 0
        self.slots_hit = set()
        self.clamp = False
        self.wraps = 0
        self.reads = 0
        self.R = R

    def step(self, op):
        q, m = self.pairs[self.cur]
        kind = op[0]
        if kind == "add":
            t = req_time(m, op[1])
            amt = float(2 ** self.k) if len(op) < 4 else float(op[3])
            self.k += 1
            raw = math.floor((t - m.clock) / m.dt + 0.5)
            if raw < 0 or raw > m.cols - 1:
                self.clamp = True
            i = m.add(t, op[2], amt)
            self.slots_hit.add((self.cur, round((m.clock + i * m.dt) / m.dt)))
            q.py_add_reaction(t, op[2], amt)
            return None
        if kind == "adv":
            return self.read(self.cur)
        if kind == "copy":
            q2 = q.py_copy()
            self.pairs.append((q2, m.copy()))
            self.cur = len(self.pairs) - 1   # continue on the copy; the original is drained at the end
            return None
        if kind == "switch":
            self.cur = op[1] % len(self.pairs)
            return None
        if kind == "setclock":
            q.py_set_current_time(op[1])
            m.set_current_time(op[1])
            return None
        if kind == "setclock_same":
            # telling a queue the time it is already at (what a simulator does when a run is continued with the queue an
            # earlier run returned) changes nothing: pending entries keep their delivery times
            q.py_set_current_time(m.clock - m.dt)
            self.same_clock_sets = getattr(self, "same_clock_sets", 0) + 1
            return None
        raise ValueError(op)

    def read(self, qi):
        q, m = self.pairs[qi]
        arr = self.np.full(self.R, -7.0)
        t_real = q.py_get_next_queue_time()
        q.py_get_next_reactions(arr)
        q.py_advance_time()
        t_mod, exp = m.read_advance()
        self.reads += 1
        self.wraps += 1
        if t_real != t_mod:
            return "queue %d: next queue time %r, model clock %r" % (qi, t_real, t_mod)
        if list(arr) != exp:
            return "queue %d at slot time %r delivered %r, model expects %r" % (qi, t_mod, list(arr), exp)
        return None

    def drain(self):
        for qi in range(len(self.pairs)):
            for _ in range(self.pairs[qi][1].cols + 1):
                e = self.read(qi)
                if e:
                    return "(final drain) " + e
        return None

    def nontrivial(self):
        return len(self.slots_hit) >= 2 and (self.clamp or self.wraps > self.pairs[0][1].cols)


def run_history(ops, R, cols, dt, start, ADQ, np):
    run = Run(R, cols, dt, start, ADQ, np)
    for i, op in enumerate(ops):
        e = run.step(op)
        if e:
            return run, "op %d %r: %s" % (i, op, e)
    # count wraps before the drain for the non-triviality rule
    pre = run.wraps
    nt_pre = len(run.slots_hit) >= 2 and (run.clamp or pre >= cols)
    e = run.drain()
    run.nt = nt_pre
    return run, e


def rand_history(rnd, R, cols, maxlen=80):
    n = rnd.randint(3, maxlen)
    ops, adds, nq = [], 0, 1
    for _ in range(n):
        u = rnd.random()
        if u < 0.5 and adds < 50:
            rel = rnd.choice([rnd.uniform(-3, -0.6), rnd.choice([0.0, 1.0, 2.0, 3.0]), rnd.randint(0, cols) + rnd.uniform(0.1, 0.4),
                              rnd.randint(0, cols) + rnd.uniform(0.6, 0.9), -rnd.uniform(0.1, 0.4), "last+0.3", "beyond",
                              cols + rnd.uniform(0.6, 30)])
            ops.append(["add", rel, rnd.randrange(R)])
            adds += 1
        elif u < 0.88:
            ops.append(["adv"])
        elif u < 0.93 and nq < 4:
            ops.append(["copy"])
            nq += 1
        elif u < 0.97:
            ops.append(["switch", rnd.randrange(8)])
        elif u < 0.985:
            ops.append(["setclock_same"])
        else:
            ops.append(["adv"])
    return ops


def run_case(case):
    import numpy as np
    from bioscrape.simulator import ArrayDelayQueue as ADQ
    import bioscrape.random as brandom
    C = {"histories": 0, "nontrivial_histories": 0, "reads_compared": 0, "ops": 0, "partitions": 0}
    viol = util.ViolList()
    samples = []

    def record(run, err, ops, meta):
        C["histories"] += 1
        C["reads_compared"] += run.reads
        C["same_clock_sets"] = C.get("same_clock_sets", 0) + getattr(run, "same_clock_sets", 0)
        C["ops"] += len(ops)
        if getattr(run, "nt", False):
            C["nontrivial_histories"] += 1
        if err and len(viol) < 3:
            viol.append({"key": "C20/model-divergence", "msg": err, "detail": {"ops": ops, "meta": meta}})

    if case["kind"] == "enum":
        R, cols, dt, start = case["R"], case["cols"], case["dt"], case["start"]
        alpha = alphabet(R)
        first = alpha[case["first"]]
        for L in range(0, case["len"]):
            for tail in itertools.product(alpha, repeat=L):
                ops = [first] + list(tail)
                run, err = run_history(ops, R, cols, dt, start, ADQ, np)
                record(run, err, ops, {"R": R, "cols": cols, "dt": dt, "start": start})
    elif case["kind"] == "random":
        rnd = random.Random(case["seed"])
        for _ in range(case["n"]):
            R, cols = rnd.randint(1, 2), rnd.randint(2, 4)
            dt = 2.0 ** rnd.randint(-3, 1)
            start = dt * rnd.randint(-8, 40)
            ops = rand_history(rnd, R, cols)
            if rnd.random() < 0.3:
                ops.insert(0, ["setclock", dt * rnd.randint(-5, 20)])
            run, err = run_history(ops, R, cols, dt, start, ADQ, np)
            record(run, err, ops, {"R": R, "cols": cols, "dt": dt, "start": start})
            if len(samples) < 1:
                samples.append(ops[:12])
    else:  # partition histories: small integer amounts, per-(reaction, slot) totals
        rnd = random.Random(case["seed"])
        for _ in range(case["n"]):
            R, cols = rnd.randint(1, 2), rnd.randint(2, 4)
            dt = 2.0 ** rnd.randint(-3, 1)
            start = dt * rnd.randint(0, 16)
            brandom.py_seed_random(rnd.getrandbits(32))
            run = Run(R, cols, dt, start, ADQ, np)
            ops = []
            err = None
            for _i in range(rnd.randint(2, 25)):
                if rnd.random() < 0.7:
                    op = ["add", rnd.choice([0.0, 1.0, 0.3, 1.7, 2.2, "last+0.3", "beyond", -1.3]), rnd.randrange(R), rnd.randint(1, 6)]
                else:
                    op = ["adv"]
                ops.append(op)
                err = run.step(op)
                if err:
                    break
            if not err:
                q, m = run.pairs[0]
                p = rnd.choice([0.5, rnd.uniform(0.05, 0.95)])
                parts = q.py_binomial_partition(p)
                C["partitions"] += 1
                q1, q2 = parts[0], parts[1]
                # both parts keep the clock; slot totals must add up; the original must be unchanged
                m1 = m.copy()
                for s in range(cols + 1):
                    a1, a2 = np.zeros(R), np.zeros(R)
                    t1, t2 = q1.py_get_next_queue_time(), q2.py_get_next_queue_time()
                    q1.py_get_next_reactions(a1); q1.py_advance_time()
                    q2.py_get_next_reactions(a2); q2.py_advance_time()
                    tm, exp = m1.read_advance()
                    if t1 != tm or t2 != tm:
                        err = "partition: part clocks %r/%r, original slot time %r" % (t1, t2, tm)
                        break
                    if list(a1 + a2) != exp or (a1 < 0).any() or (a2 < 0).any() or (a1 != np.round(a1)).any():
                        err = "partition: slot %d parts %r + %r != original %r" % (s, list(a1), list(a2), exp)
                        break
                if not err:
                    pre = run.wraps
                    run.nt = len(run.slots_hit) >= 2 and (run.clamp or pre >= cols)
                    err = run.drain()
                    if err:
                        err = "original changed by partition: " + err
            else:
                run.nt = False
            record(run, err, ops, {"R": R, "cols": cols, "dt": dt, "start": start, "kind": "partition"})
    return {"viol": viol, "counters": C, "nontrivial": C["nontrivial_histories"] > 0,
            "nontrivial_n": C["nontrivial_histories"], "samples": samples}

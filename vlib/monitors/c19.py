"""C19 - division conserves molecules and volume; lineage records are consistent."""
import math
from collections import Counter
from vlib import util, ref, gen, stats

PROPERTY = "C19"
RULE = ("(a) splitters called directly: PerfectBinomialVolumeSplitter, GeneralVolumeSplitter (perfect / duplicate / binomial lists, noise 0-0.4), "
        "LineageVolumeSplitter (per-species binomial / perfect / duplicate, volume mode each, partition_noise 0-1) on mothers with integer states "
        "0-200 and random volumes: conservation / duplication per species (exact), daughter volumes, times, perfect counts in {floor,ceil}(p n), "
        "binomial counts by randomized PIT under Binomial(n, v_d/v_mother) with the DKW bound; (b) lineage simulations: LineageModels with a "
        "conserved pair, a counter, an exhausting reaction and a duplicated species; growth by volume rule or volume event; division by "
        "time / volume / deltaV / general rule or division event; death rule / event; py_SimulateCellLineage on dyadic grids (plain and safe "
        "interface) and py_SimulateSingleCell: every daughter starts at its mother's last time from a valid partition of its last row, links "
        "are mutual, every row has positive volume and is actually simulated (conservation law and counter monotonicity hold on every row); "
        "non-trivial = partition with n >= 5 of some species / lineage with >= 2 generations; distinct by case")
ASSUMPTIONS = ["DKW bound at alpha=1e-12 on randomized PIT values (harness RNG independent of bioscrape's), second stage on rejection",
               "lineage models carry no repeated rules, so a daughter's first row is the partition itself"]
RUN_OPTS = {"batch_size": 4, "timeout_per_case": 120.0}
MINIMA = {"*": {"partitions": 20000, "lineages": 30, "divisions_checked": 100, "schnitz_rows_checked": 3000, "pit_samples": 20000,
                "zero_propensity_cells": 5, "divisions_with_decoy_triggers": 50, "reconfigured_splitters": 40}}


SANITIZE_TIERS = ("thorough",)


def sanitize_subset(cases):
    return [c for c in cases if c["kind"] == "lineage"][:40] + [dict(c, n=300) for c in cases if c["kind"] == "split"][:6]


def generate(tier, seed):
    rnd = util.rng(PROPERTY, tier, seed, "cases")
    cases = []
    npart = 30000 if tier == "quick" else 1000000
    per = 2500 if tier == "quick" else 25000
    kinds = ["perfect_binomial", "general", "lineage"]
    for i in range(npart // per):
        kind = kinds[i % 3]
        c = {"kind": "split", "splitter": kind, "n": per, "seed": util.seed64(PROPERTY, tier, seed, "sp%d" % i), "stage": 1}
        if kind == "general":
            c["noise"] = rnd.choice([0.0, 0.1, float("%.3g" % rnd.uniform(0, 0.4))])
            c["modes"] = [rnd.choice(["binomial", "perfect", "duplicate"]) for _ in range(4)]
            if i % 2 == 1:
                c["modes"] = [rnd.choice(["binomial", "duplicate"]) for _ in range(4)]        # no perfect species at all
            # the splitter object is configured once before with other modes, then re-configured; empty mode lists are
            # left out of the options dictionary (sparse) or passed as empty lists
            c["pre_modes"] = [rnd.choice(["perfect", "perfect", "duplicate", "binomial"]) for _ in range(4)] if rnd.random() < 0.7 else None
            c["sparse"] = rnd.random() < 0.6
        elif kind == "lineage":
            c["noise"] = rnd.choice([0.0, 0.5, 1.0, float("%.3g" % rnd.uniform(0, 1))])
            c["modes"] = [rnd.choice(["binomial", "perfect", "duplicate"]) for _ in range(4)]
            c["vmode"] = rnd.choice(["binomial", "binomial", "perfect", "duplicate"])
            c["default"] = rnd.choice(["binomial", None])
        cases.append(c)
    nlin = 40 if tier == "quick" else 1500
    for i in range(nlin):
        dt = 2.0 ** rnd.randint(-4, -2)
        gens = rnd.uniform(2.5, 4.5)
        cyc = float("%.3g" % rnd.uniform(0.8, 2.0))
        n = int(gens * cyc / dt) + 2
        grid = rnd.choice(["dyadic0", "dyadic0", "decimal0", "decimal_late", "dyadic_late"])
        if grid.startswith("decimal"):
            dt = rnd.choice([0.1, 0.05, 0.2])        # steps that are not exactly representable
            n = int(gens * cyc / dt) + 2
        start = 0.0 if grid.endswith("0") else float(rnd.choice([43200, 20000, 86400, 10 ** 6, 1234]))
        cases.append({"kind": "lineage", "dt": dt, "n": n, "cycle": cyc, "grid": grid, "start": start,
                      "growth": rnd.choice(["rule_linear", "rule_multiplicative", "rule_ode", "event_linear"]),
                      "division": rnd.choice(["time", "volume", "deltaV", "general", "event"]),
                      "death": rnd.choice([None, None, "rule", "event"]),
                      "reactions": rnd.choice(["normal", "normal", "none", "exhausting_only"]),
                      "vmode": rnd.choice(["binomial", "perfect"]), "noise": rnd.choice([0.0, 0.3, 0.8]),
                      "cells": rnd.choice([1, 1, 2]), "safe": rnd.random() < 0.4,
                      # division rules / events that can never fire, each with a splitter whose modes are the opposite of the live
                      # trigger's: the partition must be the one attached to the trigger that actually fired
                      "decoys": {k: rnd.choice([0, 0, 1, 2]) for k in ("rules_before", "rules_after", "events_before", "events_after")},
                      "k": {"kxy": gen.nice(rnd, 0.5, 4), "kyx": gen.nice(rnd, 0.5, 4), "kn": gen.nice(rnd, 0.5, 5), "ka": gen.nice(rnd, 1, 6)},
                      "x0": {"X": rnd.randint(4, 30), "Y": rnd.randint(0, 20), "G": rnd.randint(1, 3), "Nc": 0, "A": rnd.randint(2, 12)},
                      "seed": util.seed64(PROPERTY, tier, seed, "lin%d" % i) % (2 ** 31)})
    return cases


def run_case(case):
    return run_split(case) if case["kind"] == "split" else run_lineage(case)


def run_split(case):
    import random
    import numpy as np
    from scipy.stats import binom
    from bioscrape.types import Model
    from bioscrape.simulator import VolumeCellState, PerfectBinomialVolumeSplitter, GeneralVolumeSplitter
    from bioscrape.lineage import LineageModel, LineageVolumeSplitter, LineageVolumeCellState
    import bioscrape.random as brandom
    C = Counter()
    viol = util.ViolList()
    rnd = random.Random(case["seed"])
    brandom.py_seed_random((case["seed"] ^ 0x5DEECE66D) % (2 ** 63) or 1)
    species = ["s0", "s1", "s2", "s3"]
    kind = case["splitter"]
    modes = case.get("modes", ["binomial"] * 4)
    vmode = case.get("vmode", "binomial")
    if kind == "perfect_binomial":
        sp = PerfectBinomialVolumeSplitter()
    elif kind == "general":
        M = Model(species=species, initial_condition_dict={s: 0 for s in species})
        sp = GeneralVolumeSplitter()
        if case.get("pre_modes"):
            sp.py_set_partitioning({"perfect": [s for s, m in zip(species, case["pre_modes"]) if m == "perfect"],
                                    "duplicate": [s for s, m in zip(species, case["pre_modes"]) if m == "duplicate"]}, M)
            C["reconfigured_splitters"] += 1
        opts = {"perfect": [s for s, m in zip(species, modes) if m == "perfect"],
                "duplicate": [s for s, m in zip(species, modes) if m == "duplicate"]}
        if case.get("sparse"):
            opts = {k: v for k, v in opts.items() if v}
        sp.py_set_partitioning(opts, M)
        sp.py_set_partition_noise(case["noise"])
    else:
        M = LineageModel(species=species, initial_condition_dict={s: 0 for s in species})
        opts = {s: m for s, m in zip(species, modes)}
        opts["volume"] = vmode
        if case.get("default"):
            opts["default"] = case["default"]
        sp = LineageVolumeSplitter(M, options=opts, partition_noise=case["noise"])
    idx = M.get_species2index() if kind != "perfect_binomial" else {s: i for i, s in enumerate(species)}
    pit = []
    nontrivial = 0

    def bad(key, msg):
        if len(viol) < 5:
            viol.append({"key": "C19/%s:%s" % (key, kind), "msg": "%s splitter modes=%s volume=%s noise=%s: %s" % (kind, modes, vmode, case.get("noise"), msg)})

    for it in range(case["n"]):
        if kind == "general" and it > 0 and it % 125 == 0:
            # the SAME splitter object is configured again (new modes; empty lists left out or not): from here on it
            # must partition according to its latest configuration only
            modes = [rnd.choice(["binomial", "perfect", "duplicate"] if rnd.random() < 0.5 else ["binomial", "duplicate"]) for _ in range(4)]
            opts = {"perfect": [s for s, m in zip(species, modes) if m == "perfect"],
                    "duplicate": [s for s, m in zip(species, modes) if m == "duplicate"]}
            if rnd.random() < 0.6:
                opts = {k: v for k, v in opts.items() if v}
            sp.py_set_partitioning(opts, M)
            C["reconfigured_splitters"] += 1
        state = np.zeros(4)
        for s in species:
            state[idx[s]] = float(rnd.choice([0, 1, 2, rnd.randint(0, 20), rnd.randint(0, 200)]))
        V = float("%.4g" % rnd.uniform(0.3, 8))
        t = float("%.4g" % rnd.uniform(0, 50))
        if kind == "lineage":
            mother = LineageVolumeCellState(v0=V / 2, t0=t - 1.0, state=state.copy(), volume=V, time=t)
        else:
            mother = VolumeCellState()
            mother.py_set_time(t)
            mother.py_set_volume(V)
            mother.py_set_state(state.copy())
        d, e = sp.py_partition(mother)
        C["partitions"] += 1
        ds, es = np.array(d.py_get_state(), dtype=float), np.array(e.py_get_state(), dtype=float)
        vd, ve = d.py_get_volume(), e.py_get_volume()
        if not np.array_equal(np.array(mother.py_get_state()), state) or mother.py_get_volume() != V:
            bad("mother-changed", "the mother's state or volume was modified by the partition")
        if d.py_get_time() != t or e.py_get_time() != t:
            bad("daughter-time", "daughter times %r, %r differ from the mother's %r" % (d.py_get_time(), e.py_get_time(), t))
        if not (vd > 0 and ve > 0):
            bad("daughter-volume", "non-positive daughter volume %r %r" % (vd, ve))
        if kind == "lineage" and vmode == "duplicate":
            if vd != V or ve != V:
                bad("daughter-volume", "duplicated volume: daughters %r %r, mother %r" % (vd, ve, V))
        elif not (abs(vd + ve - V) <= 1e-12 * V):
            bad("daughter-volume", "daughter volumes %r + %r != mother %r" % (vd, ve, V))
        p = vd / V
        if kind == "perfect_binomial" and vd != V / 2:
            bad("daughter-volume", "perfect-binomial splitter gave volumes %r %r for mother %r" % (vd, ve, V))
        for s, mode in zip(species, modes):
            i = idx[s]
            n_, a, b = state[i], ds[i], es[i]
            if a != round(a) or b != round(b) or a < 0 or b < 0:
                bad("non-integer-or-negative", "species %s (%s): daughters %r %r from %r" % (s, mode, a, b, n_))
                continue
            if mode == "duplicate":
                if a != n_ or b != n_:
                    bad("duplicate-not-copied", "duplicated species %s: daughters %r %r, mother %r" % (s, a, b, n_))
                continue
            if a + b != n_:
                bad("not-conserved", "%s species %s: daughters %r + %r != mother %r" % (mode, s, a, b, n_))
                continue
            if n_ >= 5:
                nontrivial += 1
            if mode == "perfect":
                lo, hi = math.floor(p * n_ - 1e-7), math.ceil(p * n_ + 1e-7)
                if not (lo <= a <= hi):
                    bad("perfect-count", "perfect species %s: daughter %r of %r at volume fraction %r (expected %r..%r)" % (s, a, n_, p, lo, hi))
            else:
                if n_ >= 1 and 0 < p < 1:
                    F0 = binom.cdf(a - 1, n_, p)
                    F1 = binom.cdf(a, n_, p)
                    pit.append(F0 + rnd.random() * (F1 - F0))
                elif p >= 1 and a != n_:
                    bad("binomial-law", "volume fraction 1 but daughter got %r of %r" % (a, n_))
    stat = None
    if pit:
        D, eps, ok = stats.dkw_test(pit, lambda u: np.clip(u, 0, 1))
        C["pit_samples"] += len(pit)
        stat = {"ok": ok, "key": "C19/binomial-law:%s" % kind,
                "what": "%s splitter (noise %s): randomized PIT of binomial counts, sup|F_n-U|=%.4g, DKW bound %.4g (n=%d)" % (kind, case.get("noise"), D, eps, len(pit))}
    out = {"viol": viol, "counters": dict(C), "nontrivial": nontrivial > 0, "nontrivial_n": min(nontrivial, case["n"])}
    if stat:
        out["stat"] = stat
        # cumulative counts of the PIT values at 200 bin edges: pooled over cases in aggregate (a sup over a subset of points
        # is still covered by the DKW bound)
        out["pit_cum"] = [int(v) for v in np.searchsorted(np.sort(np.array(pit)), np.linspace(0, 1, 201)[1:], side="right")]
        out["pit_n"] = len(pit)
        out["pit_kind"] = kind
    return out


def build_lineage_model(case):
    from bioscrape.lineage import LineageModel, LineageVolumeSplitter
    k = case["k"]
    rx = []
    if case["reactions"] == "normal":
        rx += [(["X"], ["Y"], "massaction", {"k": k["kxy"]}), (["Y"], ["X"], "massaction", {"k": k["kyx"]}),
               ([], ["Nc"], "massaction", {"k": k["kn"]})]
    if case["reactions"] in ("normal", "exhausting_only"):
        rx += [(["A"], [], "massaction", {"k": k["ka"]})]
    M = LineageModel(species=["X", "Y", "G", "Nc", "A"], reactions=rx, initial_condition_dict=dict(case["x0"]), initialize_model=False)
    modes = {"X": "binomial", "Y": "perfect", "G": "duplicate", "Nc": "binomial", "A": "binomial", "volume": case["vmode"]}
    vs = LineageVolumeSplitter(M, options=dict(modes), partition_noise=case["noise"])
    g = math.log(2) / case["cycle"]
    if case["growth"] == "rule_linear":
        M.create_volume_rule("linear", {"growth_rate": 1.0 / case["cycle"]})
    elif case["growth"] == "rule_multiplicative":
        M.create_volume_rule("multiplicative", {"growth_rate": g})
    elif case["growth"] == "rule_ode":
        M.create_volume_rule("ode", {"equation": "%r*volume" % g})
    else:
        M.create_volume_event("linear volume", {"growth_rate": 0.05}, "massaction", {"k": 20.0 / case["cycle"], "species": ""})
    dec = case.get("decoys") or {}
    opposite = [{"X": "duplicate", "Y": "duplicate", "G": "binomial", "Nc": "duplicate", "A": "perfect", "volume": "duplicate"},
                {"X": "perfect", "Y": "binomial", "G": "perfect", "Nc": "duplicate", "A": "duplicate", "volume": "duplicate"}]
    made = [0]

    def decoy(kind):
        vd = LineageVolumeSplitter(M, options=dict(opposite[made[0] % 2]), partition_noise=0.0)
        made[0] += 1
        if kind == "rule":
            M.create_division_rule(["time", "volume"][made[0] % 2], {"threshold": 1e6}, vd)
        else:
            M.create_division_event("division", {}, "massaction", {"k": 0.0, "species": ""}, vd)

    for _ in range(dec.get("rules_before", 0)):
        decoy("rule")
    for _ in range(dec.get("events_before", 0)):
        decoy("event")
    if case["division"] == "time":
        M.create_division_rule("time", {"threshold": case["cycle"]}, vs)
    elif case["division"] == "volume":
        M.create_division_rule("volume", {"threshold": 2.0}, vs)
    elif case["division"] == "deltaV":
        M.create_division_rule("deltaV", {"threshold": 1.0}, vs)
    elif case["division"] == "general":
        M.create_division_rule("general", {"equation": "volume - 1.9"}, vs)
    else:
        M.create_division_event("division", {}, "general", {"rate": "%r*Heaviside(volume - 1.5)" % (3.0 / case["cycle"])}, vs)
    for _ in range(dec.get("rules_after", 0)):
        decoy("rule")
    for _ in range(dec.get("events_after", 0)):
        decoy("event")
    if case["death"] == "rule":
        M.create_death_rule("species", {"specie": "Nc", "threshold": 40, "comp": ">"})
    elif case["death"] == "event":
        M.create_death_event("death", {}, "massaction", {"k": 0.05, "species": ""})
    M.py_initialize()
    return M, modes


def run_lineage(case):
    import numpy as np
    from bioscrape.lineage import py_SimulateCellLineage, py_SimulateSingleCell, LineageVolumeCellState, LineageCSimInterface, SafeLineageCSimInterface
    import bioscrape.random as brandom
    C = Counter()
    viol = util.ViolList()
    M, modes = build_lineage_model(case)
    idx = M.get_species2index()
    dt, n = case["dt"], case["n"]
    start = float(case.get("start", 0.0))
    tp = (start + dt * np.arange(n)) if not case.get("grid", "").startswith("decimal") else np.linspace(start, start + dt * (n - 1), n)
    tag = "%s-division/%s-growth" % (case["division"], case["growth"].split("_")[0])

    def bad(key, msg):
        if len(viol) < 6:
            viol.append({"key": "C19/%s" % key, "msg": "lineage (%s, reactions=%s, death=%s, dt=%g, n=%d, safe=%s): %s" % (
                tag, case["reactions"], case["death"], dt, n, case["safe"], msg)})

    brandom.py_seed_random(case["seed"])
    x0 = M.get_species_array().copy()
    cells = [LineageVolumeCellState(v0=1.0, t0=start, state=x0.copy(), time=start) for _ in range(case["cells"])]
    try:
        if case["seed"] % 3 == 0:
            # one LineageSSASimulator object used through its method: first a call that is refused (a cell with volume 0 in
            # the initial list, after a good cell), caught; then the real call on the same object
            from bioscrape.lineage import LineageSSASimulator
            itf_ = SafeLineageCSimInterface(M) if case["safe"] else LineageCSimInterface(M)
            itf_.py_set_initial_time(float(tp[0]))
            simobj = LineageSSASimulator()
            try:
                simobj.py_SimulateCellLineage(tp.copy(), initial_cell_states=[LineageVolumeCellState(v0=1.0, t0=start, state=x0.copy(), time=start),
                                                                              LineageVolumeCellState(v0=0.0, t0=start, state=x0.copy(), volume=0.0, time=start)], interface=itf_)
                C["bad_initial_cell_accepted"] += 1
            except Exception:
                C["simulator_objects_reused_after_refused_call"] += 1
            lin = simobj.py_SimulateCellLineage(tp.copy(), initial_cell_states=cells, interface=itf_)
        else:
            lin = py_SimulateCellLineage(tp.copy(), initial_cell_states=cells, Model=M, safe=case["safe"])
    except ValueError as e:
        if "dividing too fast" in str(e):
            # the library's own explicit refusal: with strong partition noise a daughter can be born above the division
            # threshold and would have to divide again within one grid step - an input the simulator declares out of range
            C["lineages_refused_division_faster_than_grid"] += 1
            return {"viol": [], "counters": dict(C), "nontrivial": False}
        bad("simulation-raises", "py_SimulateCellLineage raised %r" % (e,))
        return {"viol": viol, "counters": dict(C), "nontrivial": False}
    except Exception as e:
        bad("simulation-raises", "py_SimulateCellLineage raised %r" % (e,))
        return {"viol": viol, "counters": dict(C), "nontrivial": False}
    C["lineages"] += 1
    N = lin.py_size()
    sch = [lin.py_get_schnitz(i) for i in range(N)]
    gridset = set(tp.tolist())
    gen_depth = {}
    zero_prop_cells = 0
    for i, s in enumerate(sch):
        t = np.array(s.py_get_time(), dtype=float)
        X = np.array(s.py_get_data(), dtype=float)
        V = np.array(s.py_get_volume(), dtype=float)
        if not (len(t) == len(V) == X.shape[0]) or len(t) == 0:
            bad("record-lengths", "schnitz %d: %d times, %d volumes, %d rows" % (i, len(t), len(V), X.shape[0]))
            continue
        C["schnitz_rows_checked"] += len(t)
        if (np.diff(t) <= 0).any() or not all(v in gridset for v in t.tolist()):
            bad("time-axis", "schnitz %d: times not strictly increasing grid times: %r" % (i, t[:5].tolist()))
        if not (V > 0).all():
            bad("non-positive-volume", "schnitz %d: volume trace has non-positive entries (first at row %d of %d): %r" % (i, int(np.argmax(V <= 0)), len(V), V[-3:].tolist()))
        # actually simulated: invariants of the network on every row
        tot = X[:, idx["X"]] + X[:, idx["Y"]]
        if not np.all(tot == tot[0]):
            bad("row-not-simulated", "schnitz %d: X+Y changes within a cell (%r -> %r at row %d of %d)" % (i, tot[0], tot[np.argmax(tot != tot[0])], int(np.argmax(tot != tot[0])), len(t)))
        if not np.all(X[:, idx["G"]] == X[0, idx["G"]]):
            bad("row-not-simulated", "schnitz %d: inert species G changes within a cell: %r" % (i, X[:, idx["G"]][-3:].tolist()))
        if (np.diff(X[:, idx["Nc"]]) < 0).any() or (np.diff(X[:, idx["A"]]) > 0).any():
            bad("row-not-simulated", "schnitz %d: counter Nc decreased or consumed-only species A increased within a cell" % i)
        if (X != np.round(X)).any() or (X < 0).any():
            bad("row-not-simulated", "schnitz %d: non-integer or negative counts" % i)
        if case["reactions"] in ("none", "exhausting_only") and X[-1, idx["A"]] == 0 and len(t) > 3:
            zero_prop_cells += 1
        par = s.py_get_parent()
        dau = s.py_get_daughters()
        if dau is not None and dau[0] is not None:
            d1, d2 = dau
            C["divisions_checked"] += 1
            if sum((case.get("decoys") or {}).values()):
                C["divisions_with_decoy_triggers"] += 1
            for d in (d1, d2):
                if d.py_get_parent() is not s:
                    bad("links-not-mutual", "schnitz %d: a daughter's parent is not this schnitz" % i)
                dt_ = np.array(d.py_get_time(), dtype=float)
                if len(dt_) == 0 or dt_[0] != t[-1]:
                    bad("daughter-start-time", "schnitz %d ends at %r but its daughter starts at %r" % (i, t[-1], dt_[0] if len(dt_) else None))
            a = np.array(d1.py_get_data(), dtype=float)[0]
            b = np.array(d2.py_get_data(), dtype=float)[0]
            m = X[-1]
            va, vb = np.array(d1.py_get_volume())[0], np.array(d2.py_get_volume())[0]
            if not (abs(va + vb - V[-1]) <= 1e-12 * V[-1]):
                bad("daughter-volume", "schnitz %d: daughter volumes %r + %r != mother's last volume %r" % (i, va, vb, V[-1]))
            p = va / V[-1] if V[-1] > 0 else 0.5
            for sname, mode in modes.items():
                if sname == "volume":
                    continue
                j = idx[sname]
                if mode == "duplicate":
                    if a[j] != m[j] or b[j] != m[j]:
                        bad("duplicate-not-copied", "schnitz %d: duplicated %s: daughters %r %r, mother %r" % (i, sname, a[j], b[j], m[j]))
                else:
                    if a[j] + b[j] != m[j]:
                        bad("not-conserved", "schnitz %d: %s species %s: daughters' first rows %r + %r != mother's last row %r" % (i, mode, sname, a[j], b[j], m[j]))
                    elif mode == "perfect" and not (math.floor(p * m[j] - 1e-7) <= a[j] <= math.ceil(p * m[j] + 1e-7)):
                        bad("perfect-count", "schnitz %d: perfect species %s: daughter %r of %r at volume fraction %r" % (i, sname, a[j], m[j], p))
        if par is not None:
            pd = par.py_get_daughters()
            if pd is None or not any(x is s for x in pd):
                bad("links-not-mutual", "schnitz %d: its parent does not list it as a daughter" % i)
            gen_depth[id(s)] = gen_depth.get(id(par), 0) + 1
        else:
            gen_depth[id(s)] = 0
    roots = sum(1 for s_ in sch if s_.py_get_parent() is None)
    if roots != case["cells"]:
        bad("lineage-roots", "%d cells without a mother in the returned lineage, %d initial cells were given" % (roots, case["cells"]))
    C["zero_propensity_cells"] += zero_prop_cells
    # single-cell simulation of the same model: same row invariants
    brandom.py_seed_random(case["seed"] + 1)
    try:
        r = py_SimulateSingleCell(tp.copy(), Model=M, return_dataframes=False, safe=case["safe"])
        X = np.array(r.py_get_result(), dtype=float)
        V = np.array(r.py_get_volume(), dtype=float)
        C["schnitz_rows_checked"] += len(V)
        if not (V > 0).all():
            bad("non-positive-volume", "py_SimulateSingleCell: non-positive volume at row %d of %d" % (int(np.argmax(V <= 0)), len(V)))
        tot = X[:, idx["X"]] + X[:, idx["Y"]]
        if not np.all(tot == tot[0]) or not np.all(X[:, idx["G"]] == X[0, idx["G"]]):
            bad("row-not-simulated", "py_SimulateSingleCell: conservation broken within the cell's record (row %d of %d)" % (int(np.argmax(tot != tot[0])), len(V)))
    except Exception as e:
        bad("simulation-raises", "py_SimulateSingleCell raised %r" % (e,))
    depth = max(gen_depth.values()) if gen_depth else 0
    return {"viol": viol, "counters": dict(C), "nontrivial": depth >= 2, "classes": [tag]}


def aggregate(cases, records, tier, seed, run_more):
    viol, ev = [], {"statistical": [], "stage1_unconfirmed": 0}
    retry = []
    for c, r in zip(cases, records):
        if r and "stat" in r:
            ev["statistical"].append(r["stat"]["what"])
            if not r["stat"]["ok"]:
                c2 = dict(c)
                c2["stage"] = 2
                c2["seed"] = c["seed"] + 7919
                c2["n"] = c["n"] * 4
                retry.append((c, r, c2))
    # pooled PIT per splitter kind (stage 1 only; a pooled rejection is confirmed by re-running every contributing case)
    import numpy as np
    pooled = {}
    for c, r in zip(cases, records):
        if r and "pit_cum" in r and c.get("stage", 1) == 1:
            a = pooled.setdefault(r["pit_kind"], [np.zeros(200), 0, []])
            a[0] += np.array(r["pit_cum"], dtype=float)
            a[1] += r["pit_n"]
            a[2].append(c)
    edges = np.linspace(0, 1, 201)[1:]
    for kind, (cum, n, cs) in pooled.items():
        if n < 1000:
            continue
        D = float(np.max(np.abs(cum / n - edges)))
        eps = stats.dkw_eps(n, 1e-12)
        ev["statistical"].append("pooled %s splitter: sup over 200 edges |F_n-U|=%.4g, DKW bound %.4g (n=%d)" % (kind, D, eps, n))
        if D > eps:
            c2s = []
            for c in cs:
                c2 = dict(c); c2["stage"] = 2; c2["seed"] = c["seed"] + 104729
                c2s.append(c2)
            r2s = run_more(c2s)
            cum2, n2 = np.zeros(200), 0
            for r2 in r2s:
                if r2 and "pit_cum" in r2:
                    cum2 += np.array(r2["pit_cum"], dtype=float); n2 += r2["pit_n"]
            D2 = float(np.max(np.abs(cum2 / max(n2, 1) - edges)))
            if n2 and D2 > stats.dkw_eps(n2, 1e-12):
                viol.append({"key": "C19/binomial-law:%s" % kind, "case": cs[0],
                             "msg": "pooled randomized PIT of binomial partition counts (%s splitter) rejected at both stages: D=%.4g (n=%d), D=%.4g (n=%d)" % (kind, D, n, D2, n2)})
            else:
                ev["stage1_unconfirmed"] += 1
    if retry:
        for (c, r1, c2), r2 in zip(retry, run_more([x[2] for x in retry])):
            if r2 and "stat" in r2 and not r2["stat"]["ok"]:
                viol.append({"key": r1["stat"]["key"], "msg": "rejected at both stages: %s ; %s" % (r1["stat"]["what"], r2["stat"]["what"]), "case": c2})
            else:
                ev["stage1_unconfirmed"] += 1
    return {"viol": viol, "evidence": ev}

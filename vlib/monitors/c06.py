"""C06 - every stochastic trajectory is a feasible reaction path (exact invariants per trajectory)."""
import math
from collections import Counter
from fractions import Fraction
from vlib import util, ref, gen, spec as specmod

PROPERTY = "C06"
RULE = ("random networks (2-6 species, 1-8 reactions of every propensity type incl. homodimers, reactions consuming all species, "
        "Hill/general-rate consumption run in safe mode) with integer initial states incl. zeros, with and without counter species "
        "(N_r immediate, D_r delayed product per reaction), grids of 5-400 points, several seeds, through plain/safe SSA, volume SSA "
        "(constant and growing), delay SSA, delay+volume SSA and py_simulate_model(safe=True); per trajectory: x(t)-x(0) == sum N_r S_r + D_r Sd_r "
        "(counters) or MILP lattice feasibility of sampled row differences, integrality, conservation laws (exact rational null space), "
        "non-negativity, absorption at zero total propensity; non-trivial = >=5 firings and >=2 distinct reactions fired; distinct by network x simulator x seed")
ASSUMPTIONS = ["reference stoichiometry and propensities from vlib/ref.py", "rules are absent from these models (the property excludes rule-overwritten species)"]
RUN_OPTS = {"batch_size": 6, "timeout_per_case": 60.0}
MINIMA = {"*": {"trajectories": 400, "row_pairs_with_firing": 10000, "nontrivial_trajectories": 100, "absorbed_trajectories": 5,
                "safe_nonmass_trajectories": 20, "milp_checks": 50}}

SIMS = ["ssa", "safe_ssa", "volume_const", "volume_grow", "delay", "delay_volume", "psm_safe", "psm_stochastic"]


SANITIZE_TIERS = ("thorough",)


def sanitize_subset(cases):
    return cases[:60]


def generate(tier, seed):
    rnd = util.rng(PROPERTY, tier, seed, "cases")
    n = 160 if tier == "quick" else 1500
    seeds = 10 if tier == "quick" else 40
    cases = []
    for i in range(n):
        nonmass = (i % 3 == 0)
        delays = (i % 2 == 0)
        counters = (i % 4 != 3)
        T = rnd.choice([1.0, 2.0, 4.0])
        sp = gen.bounded_network(rnd, T, counters=counters, delays=delays, nonmass_consumers=nonmass, cap=150.0, share_prob=0.35)
        if i % 7 == 0 and not counters:
            # a reaction consuming every species, placed last
            sp["reactions"].append({"type": "massaction", "reactants": list(sp["species"]), "products": [],
                                    "fields": {"k": gen.nice(rnd, 0.05, 2)}})
        g = gen.grid(rnd, 5, 400, dyadic=(i % 2 == 0), T=T)
        sims = ["safe_ssa", "psm_safe"] if nonmass else list(SIMS)
        if nonmass and delays:
            sims += ["delay_safe"]
        if not delays:
            sims = [s for s in sims if not s.startswith("delay")] + (["delay"] if not nonmass else [])
        cases.append({"spec": sp, "grid": g, "sims": sims, "nonmass": nonmass, "counters": counters,
                      "seeds": [util.seed64(PROPERTY, tier, seed, "s%d_%d" % (i, j)) % (2 ** 31) for j in range(seeds)],
                      "V": gen.nice(rnd, 0.3, 4)})
    return cases


def nullspace_int(rows):
    """integer basis of {w : w . col = 0 for every column}, rows = list of columns (each a list over species)"""
    import sympy
    if not rows:
        return []
    Mx = sympy.Matrix(rows)          # reactions x species
    ns = Mx.nullspace()              # vectors w (species) with Mx * w = 0
    out = []
    for v in ns:
        den = 1
        for e in v:
            den = sympy.ilcm(den, sympy.Rational(e).q)
        out.append([int(e * den) for e in v])
    return out


def run_case(case):
    import numpy as np
    from scipy.optimize import milp, LinearConstraint, Bounds
    from bioscrape.types import Volume, StochasticTimeThresholdVolume
    from bioscrape.simulator import (ModelCSimInterface, SafeModelCSimInterface, SSASimulator, VolumeSSASimulator, DelaySSASimulator,
                                     DelayVolumeSSASimulator, ArrayDelayQueue, py_simulate_model)
    import bioscrape.random as brandom
    C = Counter()
    viol = util.ViolList()
    sp = case["spec"]
    M = specmod.build_model(sp, "ctor")
    if any(r.get("share") for r in sp["reactions"]):
        C["networks_with_shared_parameter_dict"] += 1
    species = M.get_species_list()
    idx = M.get_species2index()
    nsp, nrx = len(species), len(sp["reactions"])
    S, Sd = ref.stoich(sp)
    Smat = np.array([[S[r].get(s, 0) for r in range(nrx)] for s in species], dtype=float)
    Sdmat = np.array([[Sd[r].get(s, 0) for r in range(nrx)] for s in species], dtype=float)
    net = Smat + Sdmat
    laws = nullspace_int([[int(v) for v in net[:, r]] for r in range(nrx)])
    g = case["grid"]
    tp = g["t0"] + g["dt"] * np.arange(g["n"])
    x0 = np.array([float(sp["x0"].get(s, 0)) for s in species])
    cnt = sp.get("counters")
    real_species = [s for s in species if not (cnt and any(s in e.values() for e in cnt.values()))]
    massaction_only = all(r["type"] == "massaction" for r in sp["reactions"] if r["reactants"] or (r.get("delay") and r["delay"]["reactants"]))
    nontrivial_n = 0

    def bad(key, msg, sim, seed):
        if len(viol) < 5:
            viol.append({"key": "C06/%s:%s" % (key, "safe" if "safe" in sim else ("delay" if "delay" in sim else ("volume" if "volume" in sim else "ssa"))),
                         "msg": "%s seed=%d: %s" % (sim, seed, msg)})

    for sim in case["sims"]:
        for seed in case["seeds"]:
            brandom.py_seed_random(seed)
            queue = None
            if sim in ("psm_safe", "psm_stochastic"):
                res = py_simulate_model(tp.copy(), Model=M, stochastic=True, safe=(sim == "psm_safe"), return_dataframe=False)
                X = np.array(res.py_get_result())
            else:
                itf = SafeModelCSimInterface(M) if sim in ("safe_ssa", "delay_safe") else ModelCSimInterface(M)
                itf.py_set_dt(g["dt"])
                if sim in ("ssa", "safe_ssa"):
                    X = np.array(SSASimulator().py_simulate(itf, tp.copy()).py_get_result())
                elif sim in ("volume_const", "volume_grow"):
                    if sim == "volume_const":
                        v = Volume()
                        v.py_set_volume(case["V"])
                    else:
                        v = StochasticTimeThresholdVolume(3.0, 1e9, 0.0)
                        v.py_initialize(x0.copy(), np.array(M.get_parameter_values()).copy(), 0.0, case["V"])
                    res = VolumeSSASimulator().py_volume_simulate(itf, v, tp.copy())
                    X = np.array(res.py_get_result())
                elif sim in ("delay", "delay_safe"):
                    q = ArrayDelayQueue.setup_queue(nrx, len(tp), g["dt"])
                    res = DelaySSASimulator().py_delay_simulate(itf, q, tp.copy())
                    X = np.array(res.py_get_result())
                    queue = res.py_get_delay_queue()
                else:
                    q = ArrayDelayQueue.setup_queue(nrx, len(tp), g["dt"])
                    v = Volume()
                    v.py_set_volume(case["V"])
                    res = DelayVolumeSSASimulator().py_delay_volume_simulate(itf, q, v, tp.copy())
                    X = np.array(res.py_get_result())
                    queue = res.py_get_delay_queue()
            C["trajectories"] += 1
            if "safe" in sim and case["nonmass"]:
                C["safe_nonmass_trajectories"] += 1
            if X.shape != (len(tp), nsp):
                bad("shape", "result shape %s" % (X.shape,), sim, seed)
                continue
            if not np.array_equal(X[0], x0):
                bad("first-row", "first row %r != initial state %r" % (list(X[0]), list(x0)), sim, seed)
            if not np.array_equal(X, np.round(X)):
                bad("non-integer", "non-integer counts from integer initial counts", sim, seed)
                continue
            dX = X - x0
            delaysim = sim.startswith("delay")
            changed = np.any(np.diff(X, axis=0) != 0, axis=1)
            C["row_pairs_with_firing"] += int(changed.sum())
            # 1. lattice membership
            if cnt:
                N = np.zeros((len(tp), nrx))
                D = np.zeros((len(tp), nrx))
                for r in range(nrx):
                    e = cnt[str(r)]
                    N[:, r] = X[:, idx[e["N"]]]
                    D[:, r] = X[:, idx[e["D"]]] if "D" in e else N[:, r]
                if (np.diff(N, axis=0) < 0).any() or (np.diff(D, axis=0) < 0).any():
                    bad("counter-decreased", "a firing counter decreased", sim, seed)
                if (D > N).any():
                    bad("delivery-without-firing", "more delayed deliveries than firings", sim, seed)
                if not delaysim and not np.array_equal(N, D):
                    bad("delayed-part-not-applied-at-firing", "simulator without delay support: immediate and delayed counters differ", sim, seed)
                expX = N @ Smat.T + D @ Sdmat.T
                if not np.array_equal(expX, dX):
                    i = int(np.argmax(np.any(expX != dX, axis=1)))
                    bad("not-a-reaction-path", "row %d (t=%g): x-x0=%r but firing counters imply %r" % (i, tp[i], list(dX[i]), list(expX[i])), sim, seed)
                fired = N[-1]
                if fired.sum() >= 5 and (fired > 0).sum() >= 2:
                    nontrivial_n += 1
            else:
                # MILP feasibility on sampled row differences (first->last and a few consecutive changes)
                cols = [Smat[:, r] for r in range(nrx)] + ([Sdmat[:, r] for r in range(nrx)] if delaysim else [])
                A = np.array(cols).T if not delaysim else np.array(cols).T
                if not delaysim:
                    A = net
                ch = np.nonzero(changed)[0]
                pairs = [(0, len(tp) - 1)] + [(int(i), int(i) + 1) for i in ch[:: max(1, len(ch) // 6)][:6]]
                for a, b in pairs:
                    d = X[b] - X[a]
                    if not d.any():
                        continue
                    nvar = A.shape[1]
                    r_ = milp(c=np.ones(nvar), constraints=LinearConstraint(A, d, d), integrality=np.ones(nvar), bounds=Bounds(0, 5000))
                    C["milp_checks"] += 1
                    if not r_.success:
                        bad("not-a-reaction-path", "rows %d->%d: difference %r is not a non-negative integer combination of the stoichiometric columns" % (a, b, list(d)), sim, seed)
                        break
                if changed.sum() >= 5:
                    nontrivial_n += 1
            # 3. conservation laws (simulators without a queue hold them on every row)
            if not delaysim:
                for w in laws:
                    tot = X @ np.array(w, dtype=float)
                    if not np.all(tot == tot[0]):
                        bad("conservation-law", "conserved combination %r changes: %r -> %r" % (dict(zip(species, w)), tot[0], tot[np.argmax(tot != tot[0])]), sim, seed)
                        break
                C["conservation_laws_checked"] += len(laws)
            # 4. non-negativity
            if (X < 0).any():
                if "safe" in sim:
                    bad("negative-count-in-safe-mode", "negative count %r" % float(X.min()), sim, seed)
                elif massaction_only:
                    bad("negative-count-mass-action", "negative count %r in a mass-action network" % float(X.min()), sim, seed)
            # 5. absorption
            if not delaysim or cnt:
                V = case["V"] if "volume" in sim else 1.0
                for i in range(len(tp)):
                    if i > 0 and not changed[i - 1] and i < len(tp) - 1:
                        continue
                    xd = dict(zip(species, X[i]))
                    mode = "stochvol" if "volume" in sim else "stoch"
                    rs = ref.rates(sp, xd, sp["params"], V, mode, 0.0)
                    if "safe" in sim:
                        for r in range(nrx):
                            need = {s: -(Smat[idx[s], r]) for s in species if Smat[idx[s], r] < 0 or Sdmat[idx[s], r] < 0}
                            for s in need:
                                a_, b_ = Smat[idx[s], r], Sdmat[idx[s], r]
                                n_ = -(a_ + b_) if (a_ < 0 and b_ < 0) else -min(a_, b_)
                                if xd[s] < n_:
                                    rs[r] = 0.0
                    if all(r <= 0 for r in rs):
                        if delaysim and not np.array_equal(N[i], D[i]):
                            break
                        C["absorbed_trajectories"] += 1
                        if not np.all(X[i:] == X[i]):
                            bad("left-absorbing-state", "row %d has zero total propensity but a later row differs" % i, sim, seed)
                        break
    return {"viol": viol, "counters": dict(C, nontrivial_trajectories=nontrivial_n), "nontrivial": nontrivial_n > 0, "nontrivial_n": nontrivial_n}

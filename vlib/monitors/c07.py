"""C07 - every simulation mode returns a complete, correctly labelled result (exhaustive option lattice)."""
import itertools, math, traceback
from collections import Counter
from vlib import util, ref, spec as specmod

PROPERTY = "C07"
RULE = ("exhaustive enumeration of {stochastic} x {delay: None,False,True} x {safe} x {volume: False, True, 2.0, Volume(1.5), dividing "
        "StochasticTimeThresholdVolume} x {data frame, result object} x {Model, pre-built plain interface, pre-built safe interface} "
        "(360 combinations) crossed with models (plain / delays / rules / delays+rules / exhausting) and uniform grids starting at 0; "
        "each call runs in a child, accepted outcomes are a well-formed result or ValueError/TypeError raised by py_simulate_model itself; "
        "non-trivial = at least one non-default option; every combination x model x grid is distinct")
ASSUMPTIONS = ["first-row oracle uses the reference rule interpreter of vlib/ref.py", "a child killed by a signal counts as failing from inside"]
RUN_OPTS = {"batch_size": 24, "timeout_per_case": 20.0}
EXHAUSTIVE = {"quick": True, "thorough": True}
MINIMA = {"*": {"calls": 1400, "results_checked": 700}}
SANITIZE_TIERS = ("thorough",)

MODELS = {
    "plain": {"species": ["A", "B", "C"], "x0": {"A": 12, "B": 3, "C": 0}, "params": {"k1": 1.0, "k2": 0.5},
              "reactions": [{"type": "massaction", "reactants": ["A"], "products": ["B"], "fields": {"k": "k1"}},
                            {"type": "massaction", "reactants": ["B", "B"], "products": ["C"], "fields": {"k": "k2"}},
                            {"type": "massaction", "reactants": [], "products": ["A"], "fields": {"k": 2.0}}], "rules": []},
    "delays": {"species": ["G", "T", "X"], "x0": {"G": 1, "T": 0, "X": 0}, "params": {"ktx": 3.0, "d": 0.4, "tau": 0.375},
               "reactions": [{"type": "massaction", "reactants": ["G"], "products": ["G"], "fields": {"k": "ktx"},
                              "delay": {"type": "fixed", "reactants": [], "products": ["T"], "params": {"delay": "tau"}}},
                             {"type": "hillpositive", "reactants": ["T"], "products": ["T", "X"], "fields": {"k": 2.0, "K": 5.0, "n": 2, "s1": "T"},
                              "delay": {"type": "gamma", "reactants": [], "products": ["X"], "params": {"k": 2.0, "theta": 0.2}}},
                             {"type": "massaction", "reactants": ["T"], "products": [], "fields": {"k": "d"}}], "rules": []},
    "rules": {"species": ["Tot", "A", "B", "Flag"], "x0": {"A": 10, "B": 2, "Tot": 99, "Flag": 7}, "params": {"k1": 0.8, "kr": 0.0, "c": 3.0}, "edit": {"c": 8.0},
              "reactions": [{"type": "massaction", "reactants": ["A"], "products": ["B"], "fields": {"k": "k1"}},
                            {"type": "general", "reactants": ["B"], "products": ["A"], "fields": {}, "ast": ["*", ["par", "kr"], ["sp", "B"]]}],
              "rules": [{"type": "assignment", "target": "kr", "ast": ["/", ["par", "c"], ["num", 4]], "frequency": "repeated"},
                        {"type": "additive", "target": "Tot", "sources": ["A", "B"], "frequency": "repeated"},
                        {"type": "assignment", "target": "Flag", "ast": ["*", ["num", 2], ["sp", "Tot"]], "frequency": "repeated"}]},
    "delays_rules": {"species": ["S", "G", "T", "St"], "x0": {"G": 2, "T": 1, "S": 50, "St": 0}, "params": {"ktx": 2.0, "d": 0.3, "m": 0.25, "s": 0.0625, "w": 3.0},
                     "edit": {"w": 5.0, "d": 0.6},
                     "reactions": [{"type": "massaction", "reactants": ["G"], "products": ["G"], "fields": {"k": "ktx"},
                                    "delay": {"type": "gaussian", "reactants": [], "products": ["T"], "params": {"mean": "m", "std": "s"}}},
                                   {"type": "massaction", "reactants": ["T"], "products": [], "fields": {"k": "d"}}],
                     "rules": [{"type": "assignment", "target": "S", "ast": ["+", ["sp", "G"], ["*", ["par", "w"], ["sp", "T"]]], "frequency": "repeated"},
                               # a rule for the initial instant only: the first row already shows it
                               {"type": "assignment", "target": "St", "ast": ["+", ["sp", "G"], ["num", 5]], "frequency": "start"}]},
    "exhausting": {"species": ["A", "W"], "x0": {"A": 3, "W": 0}, "params": {"k": 4.0, "tau": 0.25},
                   "reactions": [{"type": "massaction", "reactants": ["A"], "products": [], "fields": {"k": "k"},
                                  "delay": {"type": "fixed", "reactants": [], "products": ["W"], "params": {"delay": "tau"}}}], "rules": []},
    "volume_rule": {"species": ["Conc", "X", "P", "Tot"], "x0": {"X": 40, "P": 0, "Conc": 0, "Tot": 0}, "params": {"k": 0.3, "tau": 0.25},
                    "reactions": [{"type": "massaction", "reactants": ["X"], "products": [], "fields": {"k": "k"},
                                   "delay": {"type": "fixed", "reactants": [], "products": ["P"], "params": {"delay": "tau"}}}],
                    "rules": [{"type": "assignment", "target": "Conc", "ast": ["/", ["sp", "X"], ["vol"]], "frequency": "repeated"},
                              {"type": "additive", "target": "Tot", "sources": ["X", "P"], "frequency": "repeated"}]},
    "empty_start": {"species": ["A", "B"], "x0": {"A": 0, "B": 0}, "params": {"k": 1.0},
                    "reactions": [{"type": "massaction", "reactants": ["A"], "products": ["B"], "fields": {"k": "k"}}], "rules": []},
}
GRIDS = {"g0": (0.0, 0.125, 24), "g1": (0.0, 0.1, 41), "g2": (0.0, 0.5, 9), "g3": (0.0, 0.5, 2)}   # g3: the shortest grid that has a step
VOLS = ["off", "true", "num", "obj", "dividing"]


def generate(tier, seed):
    models = ["delays_rules", "exhausting", "empty_start", "volume_rule"] if tier == "quick" else list(MODELS)
    grids = ["g1", "g3"] if tier == "quick" else list(GRIDS)
    cases = []
    for m in models:
        for g in grids:
            for sto, dl, safe, vol, df, src in itertools.product([False, True], [None, False, True], [False, True], VOLS, [True, False],
                                                                 ["model", "plain", "safe"]):
                cases.append({"model": m, "grid": g, "stochastic": sto, "delay": dl, "safe": safe, "volume": vol, "df": df, "src": src,
                              "seed": util.seed64(PROPERTY, tier, seed, "%s%s%s%s%s%s%s%s" % (m, g, sto, dl, safe, vol, df, src)) % (2 ** 31)})
    return cases


def sanitize_subset(cases):
    return [c for c in cases if (c["delay"] or c["stochastic"]) and c["grid"] in ("g0",)]


def classify_crash(case, rec):
    return "C07/crash:" + opt_class(case)


def opt_class(case):
    parts = []
    if case["delay"]:
        parts.append("delay")
    elif case["stochastic"]:
        parts.append("stochastic")
    else:
        parts.append("deterministic")
    if case["volume"] != "off":
        parts.append("volume-" + ("object" if case["volume"] in ("obj", "dividing") else "value"))
    return "+".join(parts)


def run_case(case):
    import numpy as np
    import pandas
    from bioscrape.types import Model, Volume, StochasticTimeThresholdVolume
    from bioscrape.simulator import ModelCSimInterface, SafeModelCSimInterface, py_simulate_model
    import bioscrape.random as brandom
    C = Counter({"calls": 1})
    viol = util.ViolList()
    sp = MODELS[case["model"]]
    refused_first = (case["seed"] % 4 == 0) and bool(sp["params"])
    if refused_first:
        # history: the model is first assembled with one parameter value missing and a species that has no initial condition
        # (documented default 0); its first initialisation is refused, the value is supplied afterwards, and only then the
        # lattice calls are made
        sp = dict(sp, species=list(sp["species"]) + ["Zq"])
        missing = sorted(sp["params"])[case["seed"] % len(sp["params"])]
        sp_missing = dict(sp, params={k_: v_ for k_, v_ in sp["params"].items() if k_ != missing})
        M = specmod.build_model(sp_missing, "ctor", initialize=False)
        try:
            py_simulate_model(np.array([0.0, 0.5, 1.0]), Model=M, stochastic=False)
            return {"viol": [], "counters": {"unspecified_parameter_not_refused": 1}, "nontrivial": False}
        except Exception:
            C["refused_first_initialisations"] += 1
        M.set_parameter(missing, sp["params"][missing])
    else:
        M = specmod.build_model(sp, "ctor")
    t0, dt, n = GRIDS[case["grid"]]
    tp = t0 + dt * np.arange(n)
    cur_params = dict(sp["params"])
    src_obj = {"plain": lambda: ModelCSimInterface(M), "safe": lambda: SafeModelCSimInterface(M), "model": lambda: None}[case["src"]]()

    def make_kwargs():
      kwargs = {"stochastic": case["stochastic"], "delay": case["delay"], "safe": case["safe"], "return_dataframe": case["df"]}
      x0vec = M.get_species_array().copy()
      pvec = np.array(M.get_parameter_values()).copy()
      if case["volume"] == "off":
          kwargs["volume"] = False
      elif case["volume"] == "true":
          kwargs["volume"] = True
      elif case["volume"] == "num":
          kwargs["volume"] = 2.0
      elif case["volume"] == "obj":
          v = Volume()
          v.py_set_volume(1.5)
          kwargs["volume"] = v
      else:
          v = StochasticTimeThresholdVolume(1.0, 2.0, 0.0)   # doubles in 1 time unit, divides at volume 2
          v.py_initialize(x0vec.copy(), pvec.copy(), 0.0, 1.0)
          kwargs["volume"] = v
      if case["src"] == "model":
          kwargs["Model"] = M
      elif case["src"] == "plain":
          kwargs["Interface"] = src_obj
      else:
          kwargs["Interface"] = src_obj
      return kwargs

    def one_call(tag):
        kwargs = make_kwargs()
        brandom.py_seed_random(case["seed"])
        oc = opt_class(case)
        try:
            res = py_simulate_model(tp.copy(), **kwargs)
        except BaseException as e:
            tb = traceback.extract_tb(e.__traceback__)
            inner = tb[-1].name if tb else "?"
            if isinstance(e, (ValueError, TypeError)) and not isinstance(e, UnboundLocalError) and inner.endswith("py_simulate_model"):
                C["explicit_rejections"] += 1
                return {"viol": [], "counters": dict(C), "nontrivial": True, "classes": ["rejected:" + oc]}
            return {"viol": [{"key": "C07/fails-from-inside:%s:%s" % (oc, type(e).__name__),
                              "msg": "py_simulate_model(%s)%s raised %s from %s: %s" % (fmt(case), tag, type(e).__name__, inner, str(e)[:200])}],
                    "counters": dict(C), "nontrivial": True}
        C["results_checked"] += 1
        uses_vol = case["volume"] != "off" and (case["stochastic"] or bool(case["delay"]))
        dividing = case["volume"] == "dividing" and uses_vol
        species = M.get_species_list()
        nsp = len(species)

        def bad(key, msg):
            viol.append({"key": "C07/%s:%s" % (key, oc), "msg": "py_simulate_model(%s)%s: %s" % (fmt(case), tag, msg)})

        if case["df"]:
            if not isinstance(res, pandas.DataFrame):
                bad("not-a-dataframe", "returned %r" % type(res))
                return {"viol": viol, "counters": dict(C), "nontrivial": True}
            cols = list(res.columns)
            exp_cols = (species if case["src"] == "model" else list(range(nsp))) + ["time"] + (["volume"] if uses_vol else [])
            if cols != exp_cols:
                bad("columns", "columns %r, expected %r" % (cols, exp_cols))
            rows = len(res)
            try:
                times = np.array(res["time"], dtype=float)
            except Exception as e:
                times = None
                bad("time-axis", "time column unusable: %r" % (list(res["time"])[:3],))
            data = res[cols[:nsp]].to_numpy(dtype=float) if len(cols) >= nsp else None
            vol = np.array(res["volume"], dtype=float) if "volume" in cols else None
            divided = None
        else:
            try:
                data = np.array(res.py_get_result(), dtype=float)
                rows = data.shape[0]
            except Exception as e:
                bad("result-array", "py_get_result failed: %r" % e)
                return {"viol": viol, "counters": dict(C), "nontrivial": True}
            try:
                tt = res.py_get_timepoints()
                times = np.array(tt, dtype=float) if tt is not None else None
                if times is None or times.ndim != 1:
                    bad("time-axis", "py_get_timepoints() returned %r" % (tt,))
                    times = None
            except Exception as e:
                times = None
                bad("time-axis", "py_get_timepoints failed: %r" % e)
            vol = None
            divided = None
            if uses_vol:
                try:
                    vol = np.array(res.py_get_volume(), dtype=float)
                    divided = bool(res.py_cell_divided())
                except Exception as e:
                    bad("volume-accessors", "volume accessors failed: %r" % e)
            if data.ndim != 2 or data.shape[1] != nsp:
                bad("result-shape", "result shape %s for %d species" % (data.shape, nsp))
        # rows / time axis
        if dividing:
            if not (1 <= rows <= n):
                bad("row-count", "%d rows for %d requested times (dividing volume)" % (rows, n))
            if divided is not None and rows < n and not divided:
                bad("divided-flag", "result truncated to %d rows but not flagged as divided" % rows)
            if divided is not None and rows == n and divided and False:
                pass
            # doubling time 1.0 from volume 1 -> division at t=1.0, inside every grid used here
            if rows == n and tp[-1] > 1.0 + 2 * dt:
                bad("no-division", "dividing volume passed but the full grid was returned")
        else:
            if rows != n:
                bad("row-count", "%d rows for %d requested times" % (rows, n))
            if divided:
                bad("divided-flag", "flagged as divided without a dividing volume")
        if times is not None:
            if len(times) != rows or not np.array_equal(times, tp[:rows]):
                bad("time-axis", "time axis %r... differs from the requested times %r..." % (list(times[:3]), list(tp[:3])))
        if vol is not None:
            if len(vol) != rows or not (vol > 0).all():
                bad("volume-column", "volume trace length %d / non-positive entries (rows %d): %r" % (len(vol), rows, list(vol[:4])))
        # first row = initial condition with assignment rules applied
        if data is not None and rows >= 1 and data.ndim == 2 and data.shape[1] == nsp:
            x = {s: float(sp["x0"].get(s, 0)) for s in species}
            p = dict(cur_params)
            V0 = {"off": 1.0, "true": 1.0, "num": 2.0, "obj": 1.5, "dividing": 1.0}[case["volume"]]
            ref.apply_rules(sp, x, p, 0.0, V0 if uses_vol else 1.0, only=("repeated", "repeat", "start"))
            exp0 = np.array([x[s] for s in species])
            if not np.allclose(data[0], exp0, rtol=1e-12, atol=0):
                bad("first-row", "first row %r, expected initial condition with rules %r" % (list(data[0]), list(exp0)))
            if not np.isfinite(data).all() and case["model"] != "__":
                bad("non-finite", "non-finite entries in the result")
        return {"viol": viol[:4], "counters": dict(C), "nontrivial": not (not case["stochastic"] and case["delay"] is None and not case["safe"]
                and case["volume"] == "off" and case["df"] and case["src"] == "model"), "classes": ["result:" + oc]}

    # a history on ONE model / interface object: an optional earlier call with other options, the lattice call, and the same
    # call again.  Every call with the lattice options must return a complete, correctly labelled result whose first row is
    # the model's initial condition (with rules) - whatever was simulated on the object before.
    import random as _random
    rr = _random.Random(case["seed"])
    prior = rr.choice([None, "delay", "volume", "det", "delay_volume", "stochastic"])
    if prior is not None:
        pk = {"delay": dict(stochastic=True, delay=True), "volume": dict(stochastic=True, volume=2.0), "det": dict(stochastic=False),
              "delay_volume": dict(stochastic=True, delay=True, volume=1.5), "stochastic": dict(stochastic=True)}[prior]
        if case["src"] == "model":
            pk["Model"] = M
        else:
            pk["Interface"] = src_obj
        brandom.py_seed_random(case["seed"] + 17)
        try:
            py_simulate_model(tp.copy(), return_dataframe=False, **pk)
            C["prior_calls"] += 1
        except BaseException:
            pass
    last = None
    for k in range(2):
        if k == 1 and sp.get("edit"):
            # between the two calls the parameter values are edited in place: the second result is the edited model's
            if rr.random() < 0.5:
                M.set_params(dict(sp["edit"]))
            else:
                for q_, v_ in sp["edit"].items():
                    M.set_parameter(q_, v_)
            cur_params.update(sp["edit"])
            C["value_edits_between_calls"] += 1
        tag = "" if (k == 0 and prior is None) else " [call #%d on this object%s]" % (k + 1, ", after an earlier %s run" % prior if prior else "")
        last = one_call(tag)
        if last["viol"] or "rejected" in "".join(last.get("classes", [])):
            break
        C["calls"] += (k > 0)
    last["counters"] = dict(C)
    return last


def fmt(c):
    return "model=%s grid=%s stochastic=%s delay=%s safe=%s volume=%s dataframe=%s source=%s" % (
        c["model"], c["grid"], c["stochastic"], c["delay"], c["safe"], c["volume"], c["df"], c["src"])

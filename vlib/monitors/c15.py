"""C15 - the inference cost is the stated posterior on correctly aligned data."""
import math
from collections import Counter
from vlib import util, ref, gen

PROPERTY = "C15"
RULE = ("linear chain models (production, A->B->C, degradation; closed-form solution by matrix exponential) with 1-4 trajectories, each with its "
        "own initial condition, parameter condition and time grid (equal lengths), 1-3 measured species, norm order 1-3, data = solution at "
        "hidden parameters + fixed pseudo-noise, priors from the seven families; InferenceSetup.cost_function is driven with a sequence of "
        "6-30 theta (repeats, out-of-support points) and compared with log-prior - Lp distance to the closed-form simulation; metamorphic "
        "partners: measurement columns permuted (list and frame independently), trajectories permuted, a fresh InferenceSetup per theta; "
        "LL_data checked element-wise against the frames; stochastic cost on models whose simulation is deterministic; a short real emcee run "
        "is observed through an icontract postcondition on cost_function; non-trivial = >=2 measured species or >=2 trajectories with distinct "
        "conditions; distinct by case digest")
ASSUMPTIONS = ["scipy.linalg.expm closed form of the linear rate equations is the reference simulation", "tolerance 1e-4*(1+|value|) covers LSODA's error",
               "reference log-priors from vlib/ref.py (C16)"]
RUN_OPTS = {"batch_size": 5, "timeout_per_case": 120.0}
MINIMA = {"*": {"cost_evaluations": 300, "contract_evaluations": 300, "ll_data_entries": 1000, "permutation_pairs": 100, "history_pairs": 100,
                "out_of_support_thetas": 20, "emcee_evaluations": 40, "differing_key_cases": 2, "differing_initial_condition_key_cases": 2, "reconfigured_evaluations": 40, "stochastic_cost_evaluations": 20, "square_time_arrays": 2}}

ALLP = ["kp", "k1", "k2", "d", "da"]


def rand_prior(rnd, center):
    fam = rnd.choice(["uniform", "gaussian", "log-uniform", "exponential", "gamma", "log-gaussian"])
    if fam == "uniform":
        return ["uniform", float("%.3g" % (center * 0.1)), float("%.3g" % (center * 6))]
    if fam == "gaussian":
        return ["gaussian", float("%.3g" % center), float("%.3g" % (center * rnd.uniform(0.3, 2)))] + (["positive"] if rnd.random() < 0.5 else [])
    if fam == "log-uniform":
        return ["log-uniform", float("%.3g" % (center * 0.05)), float("%.3g" % (center * 20))]
    if fam == "exponential":
        return ["exponential", float("%.3g" % (1 / center))]
    if fam == "gamma":
        return ["gamma", float(rnd.choice([1, 2, 3])), float("%.3g" % (2 / center))]
    return ["log-gaussian", float("%.3g" % math.log(center)), float("%.3g" % rnd.uniform(0.3, 1.5))]


def gen_case(rnd, thorough, i):
    N = rnd.randint(1, 4)
    if i % 6 == 0 or i % 4 == 1:
        N = max(N, 2)          # every second stochastic case is a square (N x N) one: it needs at least two trajectories
    T = rnd.randint(8, 30)
    true = {"kp": gen.nice(rnd, 0.5, 5), "k1": gen.nice(rnd, 0.2, 2), "k2": gen.nice(rnd, 0.2, 2), "d": gen.nice(rnd, 0.1, 1), "da": gen.nice(rnd, 0.05, 0.5)}
    est = rnd.choice([["k1"], ["k2"], ["k1", "k2"], ["k2", "d"], ["k1", "k2", "d"]])
    condkeys = rnd.choice([[], ["kp"], ["da"], ["kp", "da"]])
    condkeys = [k for k in condkeys if k not in est]
    conds = []
    for n in range(N):
        if i % 3 == 0 and condkeys and N > 1:
            # differing key sets, including a "control" trajectory with no condition at all; in half of these cases the
            # last trajectory carries every key (a value left behind by it would be seen by the next evaluation)
            if n == N - 1 and i % 2 == 0:
                keys = list(condkeys)
            else:
                keys = [k for k in condkeys if rnd.random() < 0.5]
        else:
            keys = condkeys
        conds.append({k: float("%.3g" % (true[k] * rnd.uniform(0.3, 3))) for k in keys})
    x0s = [{"A": float(rnd.randint(0, 20)), "B": float(rnd.randint(0, 20)), "C": float(rnd.randint(0, 10))} for _ in range(N)]
    if i % 4 == 1 and N > 1:
        # initial conditions naming different subsets of the species: an unnamed species starts at the model's own value
        for n in range(N):
            keep = [k_ for k_ in "ABC" if rnd.random() < 0.55] or [rnd.choice("ABC")]
            x0s[n] = {k_: x0s[n][k_] for k_ in keep}
    grids = []
    for n in range(N):
        dt = float("%.3g" % rnd.uniform(0.1, 0.6))
        grids.append([dt * j for j in range(T)])
    meas = rnd.sample(["A", "B", "C"], rnd.randint(1, 3))
    noise = [[[float("%.3g" % rnd.gauss(0, 0.4)) for _ in meas] for _ in range(T)] for _ in range(N)]
    # dictionary key orders are independent of the listing orders (prior keys vs params_to_estimate, species in an initial
    # condition vs the model's species order)
    pest = list(est)
    rnd.shuffle(pest)
    prior = {p: rand_prior(rnd, true[p]) for p in pest}
    for n_ in range(N):
        ks = list(x0s[n_])
        rnd.shuffle(ks)
        x0s[n_] = {k_: x0s[n_][k_] for k_ in ks}
    k = rnd.randint(6, 14) if not thorough else rnd.randint(10, 30)
    thetas = []
    for _ in range(k):
        u = rnd.random()
        if thetas and u < 0.2:
            thetas.append(list(rnd.choice(thetas)))
        elif u < 0.35:
            th = [float("%.4g" % (true[p] * rnd.uniform(0.3, 3))) for p in est]
            j = rnd.randrange(len(est))
            th[j] = -abs(th[j]) if rnd.random() < 0.6 else th[j] * 1e4
            thetas.append(th)
        else:
            thetas.append([float("%.4g" % (true[p] * rnd.uniform(0.3, 3))) for p in est])
    return {"N": N, "T": T, "true": true, "est": est, "conds": conds, "condkeys": condkeys, "x0s": x0s, "grids": grids, "meas": meas, "noise": noise,
            "prior": prior, "norm": rnd.randint(1, 3), "thetas": thetas, "single_frame": (N == 1 and rnd.random() < 0.5),
            "ic_as_dict": False, "emcee": (i % 6 == 0), "stochastic": (i % 3 == 0),
            "seed": rnd.getrandbits(30) + 1, "_": 0, "idx": i, "differing_keys": len(set(tuple(sorted(c)) for c in conds)) > 1,
            "differing_ic_keys": len(set(tuple(sorted(c)) for c in x0s)) > 1}


def generate(tier, seed):
    rnd = util.rng(PROPERTY, tier, seed, "cases")
    n = 40 if tier == "quick" else 800
    return [gen_case(rnd, tier == "thorough", i) for i in range(n)]


_cost_log = []


def child_setup():
    import icontract
    import bioscrape.inference_setup as ins

    def cost_logged(self, params, result):
        _cost_log.append((id(self), [float(v) for v in params], float(result)))
        return True

    ins.InferenceSetup.cost_function = icontract.ensure(cost_logged, error=AssertionError)(ins.InferenceSetup.cost_function)


MODEL_X0 = {"A": 1.0, "B": 2.0, "C": 3.0}


def solution(params, x0, tp):
    import numpy as np
    from scipy.linalg import expm
    kp, k1, k2, d, da = (params[k] for k in ALLP)
    A = np.array([[-(k1 + da), 0, 0, kp], [k1, -k2, 0, 0], [0, k2, -d, 0], [0, 0, 0, 0]], dtype=float)
    x0 = dict(MODEL_X0, **x0)
    v0 = np.array([x0["A"], x0["B"], x0["C"], 1.0])
    return np.array([(expm(A * t) @ v0)[:3] for t in tp])


def make_model(case):
    from bioscrape.types import Model
    t = case["true"]
    return Model(species=["C", "A", "Dz", "B"],
                 reactions=[([], ["A"], "massaction", {"k": "kp"}), (["A"], ["B"], "massaction", {"k": "k1"}), (["B"], ["C"], "massaction", {"k": "k2"}),
                            (["C"], [], "massaction", {"k": "d"}), (["A"], [], "massaction", {"k": "da"})],
                 parameters=[(k, t[k]) for k in ALLP] + [("unused", 3.25)], initial_condition_dict={"A": 1.0, "B": 2.0, "C": 3.0, "Dz": 4.0})


def make_setup(case, M, order=None, meas=None, colorder=None):
    import numpy as np
    import pandas as pd
    from bioscrape.inference_setup import InferenceSetup
    order = list(range(case["N"])) if order is None else order
    meas = list(case["meas"]) if meas is None else meas
    frames = []
    for n in order:
        tp = np.array(case["grids"][n])
        p = dict(case["true"])
        p.update(case["conds"][n])
        sol = solution(p, case["x0s"][n], tp)
        cols = {"time": tp}
        for m in case["meas"]:
            j = "ABC".index(m)
            cols[m] = sol[:, j] + np.array([case["noise"][n][t][case["meas"].index(m)] for t in range(case["T"])])
        names = list(cols)
        if colorder is not None:
            names = [names[i] for i in colorder]
        frames.append(pd.DataFrame({k: cols[k] for k in names}))
    kw = dict(Model=M, measurements=meas, time_column="time", params_to_estimate=list(case["est"]), prior={k: list(v) for k, v in case["prior"].items()},
              norm_order=case["norm"], sim_type="deterministic")
    kw["exp_data"] = frames[0] if case["single_frame"] else frames
    # with a single DataFrame the initial / parameter conditions have to be dictionaries (a list is refused at set-up)
    kw["initial_conditions"] = dict(case["x0s"][order[0]]) if case["single_frame"] else [dict(case["x0s"][n]) for n in order]
    if case["condkeys"]:
        kw["parameter_conditions"] = dict(case["conds"][order[0]]) if case["single_frame"] else [dict(case["conds"][n]) for n in order]
    return InferenceSetup(**kw), frames


def expected_cost(case, theta, order=None, meas=None, norm=None, prior=None):
    import numpy as np
    lp = 0.0
    for p, v in zip(case["est"], theta):
        pr = (prior or case["prior"])[p]
        if "positive" in pr and v < 0:
            return -math.inf
        q = ref.logpdf([x for x in pr if x != "positive"], v)
        if not math.isfinite(q):
            return -math.inf
        if q < -650:
            return None      # the density underflows in double precision: not asserted either way
        lp += q
    tot = 0.0
    for n in range(case["N"]):
        tp = np.array(case["grids"][n])
        pdata = dict(case["true"])
        pdata.update(case["conds"][n])
        data = solution(pdata, case["x0s"][n], tp)
        psim = dict(case["true"])
        psim.update(case["conds"][n])
        psim.update(dict(zip(case["est"], theta)))
        sim = solution(psim, case["x0s"][n], tp)
        for m in (case["meas"] if meas is None else meas):
            j = "ABC".index(m)
            nz = np.array([case["noise"][n][t][case["meas"].index(m)] for t in range(case["T"])])
            tot += float(np.sum(np.abs(data[:, j] + nz - sim[:, j]) ** (case["norm"] if norm is None else norm)))
    return lp - tot ** (1.0 / (case["norm"] if norm is None else norm))


def run_case(case):
    import os, tempfile, shutil, random
    import numpy as np
    C = Counter()
    viol = util.ViolList()
    M = make_model(case)
    base_params = dict(M.get_parameter_dictionary())

    def bad(key, msg):
        if len(viol) < 6:
            viol.append({"key": "C15/" + key, "msg": msg})

    try:
        inf, frames = make_setup(case, M)
    except Exception as e:
        bad("setup-raises", "InferenceSetup construction raised %r" % (e,))
        return {"viol": viol, "counters": dict(C), "nontrivial": False}
    # data alignment: LL_data[n, t, m] == frame_n[measurements[m]][t]
    LL = np.array(inf.LL_data)
    if LL.shape != (case["N"], case["T"], len(case["meas"])):
        bad("data-shape", "LL_data shape %s, expected %s" % (LL.shape, (case["N"], case["T"], len(case["meas"]))))
    else:
        for n in range(case["N"]):
            for mi, m in enumerate(case["meas"]):
                col = np.array(frames[n][m])
                C["ll_data_entries"] += len(col)
                if not np.array_equal(LL[n, :, mi], col):
                    bad("data-misaligned", "LL_data[%d,:,%d] is not the column %r of trajectory %d (first rows %r vs %r)" % (n, mi, m, n, LL[n, :3, mi].tolist(), col[:3].tolist()))
                    break
    mech = "condition-keys-differ" if case["differing_keys"] else "cost-value"
    if case["differing_keys"]:
        C["differing_key_cases"] += 1
    if case.get("differing_ic_keys"):
        C["differing_initial_condition_key_cases"] += 1
    # drive the sequence
    got = []
    for th in case["thetas"]:
        n0 = len(_cost_log)
        try:
            v = float(inf.cost_function(np.array(th)))
        except Exception as e:
            bad("cost-raises", "cost_function(%r) raised %r" % (th, e))
            got.append(None)
            continue
        C["cost_evaluations"] += 1
        if len(_cost_log) == n0 + 1:
            C["contract_evaluations"] += 1
            v = _cost_log[-1][2]
        got.append(v)
        exp = expected_cost(case, th)
        if exp is None:
            C["skipped_underflow"] += 1
            continue
        if exp == -math.inf:
            C["out_of_support_thetas"] += 1
            if v != -math.inf:
                bad("finite-outside-prior-support", "cost_function(%r)=%r, but theta is outside the prior's support (%r)" % (th, v, case["prior"]))
        elif not (math.isfinite(v) and abs(v - exp) <= 1e-4 * (1 + abs(exp))):
            bad(mech, "cost_function(%r)=%r, stated posterior = %r (N=%d, measured %s, norm %d, conditions %r)" % (th, v, exp, case["N"], case["meas"], case["norm"], case["conds"]))
        now = dict(M.get_parameter_dictionary())
        for k in now:
            if k not in case["est"] and k not in case["condkeys"] and float(now[k]) != float(base_params[k]):
                bad("model-parameters-changed", "parameter %s changed from %r to %r by cost evaluations" % (k, base_params[k], now[k]))
    # history-free baseline: a fresh setup per theta
    for th, v in list(zip(case["thetas"], got))[:6]:
        if v is None:
            continue
        M2 = make_model(case)
        inf2, _ = make_setup(case, M2)
        v2 = float(inf2.cost_function(np.array(th)))
        C["history_pairs"] += 1
        if not (v == v2 or (math.isfinite(v) and math.isfinite(v2) and abs(v - v2) <= 1e-9 * (1 + abs(v)))):
            bad("history-dependence", "cost_function(%r) is %r after earlier evaluations but %r on a fresh setup" % (th, v, v2))
    # permutations
    rr = random.Random(case["seed"])
    perms = []
    if len(case["meas"]) > 1:
        pm = list(case["meas"])
        rr.shuffle(pm)
        co = list(range(len(case["meas"]) + 1))
        rr.shuffle(co)
        perms.append(("measurement-order", dict(meas=pm, colorder=co)))
    if case["N"] > 1:
        od = list(range(case["N"]))
        while od == list(range(case["N"])):
            rr.shuffle(od)
        perms.append(("trajectory-order", dict(order=od)))
    for name, kw in perms:
        M3 = make_model(case)
        try:
            inf3, _ = make_setup(case, M3, **kw)
        except Exception as e:
            bad("setup-raises", "permuted setup raised %r" % (e,))
            continue
        for th, v in list(zip(case["thetas"], got))[:5]:
            if v is None:
                continue
            # compare against the history-free value of the original arrangement
            M4 = make_model(case)
            inf4, _ = make_setup(case, M4)
            v0 = float(inf4.cost_function(np.array(th)))
            v3 = float(inf3.cost_function(np.array(th)))
            M3b = make_model(case)
            inf3, _ = make_setup(case, M3b, **kw)
            C["permutation_pairs"] += 1
            if not (v0 == v3 or (math.isfinite(v0) and math.isfinite(v3) and abs(v0 - v3) <= 1e-9 * (1 + abs(v0)))):
                bad("depends-on-%s%s" % (name, ":condition-keys-differ" if case["differing_keys"] and name == "trajectory-order" else ""),
                    "cost_function(%r) = %r, but %r with the %s permuted (%r)" % (th, v0, v3, name, kw))
    # re-configuration of an object that has already been prepared and used: measured species re-listed / narrowed and the
    # norm order changed through the setters, then prepare_inference + setup_cost_function as the documentation prescribes
    good = [th for th in case["thetas"] if (expected_cost(case, th) or -math.inf) > -math.inf]
    if good and not case["single_frame"]:
        th = good[0]
        M6 = make_model(case)
        try:
            inf6, _ = make_setup(case, M6)
            inf6.cost_function(np.array(th))
            cur_meas, cur_norm = list(case["meas"]), case["norm"]
            steps = []
            if len(case["meas"]) > 1:
                pm = list(case["meas"])
                while pm == list(case["meas"]):
                    rr.shuffle(pm)
                steps += [("measurements", pm), ("measurements", pm[:-1])]
            # a new prior (another family / other bounds, 'positive' added) set on its own, with no other setter before the
            # cost function is set up again
            new_prior = {}
            for p_ in case["est"]:
                c_ = case["true"][p_]
                new_prior[p_] = rr.choice([["uniform", float("%.3g" % (c_ * 0.02)), float("%.3g" % (c_ * 40))],
                                           ["gaussian", float("%.3g" % (c_ * 1.3)), float("%.3g" % (c_ * 0.8)), "positive"],
                                           ["log-uniform", float("%.3g" % (c_ * 0.01)), float("%.3g" % (c_ * 90))]])
            cur_prior = None
            steps += [("norm_order", 1 + case["norm"] % 3), ("prior", new_prior), ("measurements", list(case["meas"]))]
            for what, val in steps:
                if what == "measurements":
                    inf6.set_measurements(list(val))
                    cur_meas = list(val)
                elif what == "prior":
                    inf6.set_prior({k_: list(v_) for k_, v_ in val.items()})
                    cur_prior = val
                else:
                    inf6.set_norm_order(val)
                    cur_norm = val
                # an evaluation leaves theta and the last trajectory's condition in the model's parameter array, and
                # prepare_inference takes the model's values as they are as the new defaults: the model is put back to its own
                # values first, so that "the model's parameters" of the statement are unambiguous
                M6.set_params({k: float(v_) for k, v_ in base_params.items()})
                M6.set_species(dict(MODEL_X0, Dz=4.0))      # as for the parameters: the model object is handed over in its original state
                inf6.prepare_inference()
                inf6.setup_cost_function()
                v = float(inf6.cost_function(np.array(th)))
                exp = expected_cost(case, th, meas=cur_meas, norm=cur_norm, prior=cur_prior)
                C["reconfigured_evaluations"] += 1
                if what == "prior":
                    # a theta outside the NEW prior's support (negative) must now be rejected
                    neg = [-abs(x_) for x_ in th]
                    vneg = float(inf6.cost_function(np.array(neg)))
                    if vneg != -math.inf:
                        bad("stale-after-reconfiguration:prior", "after set_prior(%r) on a prepared object cost_function(%r) = %r, expected -inf" % (val, neg, vneg))
                ok_ = True if exp is None else ((v == -math.inf) if exp == -math.inf else (math.isfinite(v) and abs(v - exp) <= 1e-4 * (1 + abs(exp))))
                if not ok_:
                    bad("stale-after-reconfiguration:" + what, "after %s = %r on a prepared object (then prepare_inference, setup_cost_function) cost_function(%r) = %r, stated posterior %r" % (
                        what, val, th, v, exp))
                    break
        except Exception as e:
            bad("reconfiguration-raises", "re-configuring a prepared InferenceSetup raised %r" % (e,))
    # a refused re-configuration: the object is given a configuration that cannot be set up (two parameter conditions for one
    # trajectory), the error is caught, the valid settings are put back, and the cost function that was installed before
    # is evaluated again - still a function of theta alone
    if good and case["N"] == 1 and not case["single_frame"]:
        th = good[0]
        M7 = make_model(case)
        inf7, _ = make_setup(case, M7)
        try:
            v_before = float(inf7.cost_function(np.array(th)))
            refused = False
            try:
                inf7.set_initial_conditions([{"A": 50.0, "B": 1.0, "C": 2.0}])
                inf7.set_parameter_conditions([{"kp": 1.0}, {"kp": 2.0}])
                inf7.prepare_inference()
                inf7.setup_cost_function()
            except Exception:
                refused = True
            # the same at the level of the inference interface: a likelihood for three trajectories with ONE shared initial
            # condition but only two parameter conditions is refused while the valid likelihood stays installed
            try:
                LL3 = np.concatenate([np.array(inf7.LL_data)] * 3, axis=0)
                tp3 = [np.array(case["grids"][0])] * 3
                inf7.pid_interface.setup_likelihood_function(LL3, tp3, list(case["meas"]), {"A": 50.0, "B": 1.0, "C": 2.0},
                                                             [{"kp": 1.0}, {"kp": 2.0}], norm_order=case["norm"])
                C["invalid_reconfiguration_accepted"] += 1
            except Exception:
                C["refused_likelihood_constructions"] += 1
                v_mid = float(inf7.cost_function(np.array(th)))
                if not (v_mid == v_before or abs(v_mid - v_before) <= 1e-9 * (1 + abs(v_before))):
                    bad("residue-of-refused-reconfiguration", "cost_function(%r) was %r, and is %r after a likelihood construction on the same interface was refused" % (th, v_before, v_mid))
            if refused:
                inf7.set_initial_conditions([dict(case["x0s"][0])])
                if case["condkeys"]:
                    inf7.set_parameter_conditions([dict(case["conds"][0])])
                v_after = float(inf7.cost_function(np.array(th)))
                C["evaluations_after_refused_reconfiguration"] += 1
                if not (v_after == v_before or abs(v_after - v_before) <= 1e-9 * (1 + abs(v_before))):
                    bad("residue-of-refused-reconfiguration", "cost_function(%r) was %r, and is %r after a re-configuration that was refused and undone" % (th, v_before, v_after))
            else:
                C["invalid_reconfiguration_accepted"] += 1
        except Exception as e:
            bad("reconfiguration-raises", "evaluating around a refused re-configuration raised %r" % (e,))
    if good and case["N"] == 1 and not case["single_frame"]:
        th = good[0]
        M8 = make_model(case)
        inf8, _ = make_setup(case, M8)
        try:
            v_before = float(inf8.cost_function(np.array(th)))
            # a refused setter call on its own: an entry that is not a plain dict is rejected; the object is then re-prepared
            # (norm order set to what it already is) and must still be the accepted configuration
            import collections as _c
            try:
                inf8.set_initial_conditions([_c.OrderedDict([("A", 50.0), ("B", 1.0), ("C", 2.0)])])
                C["odd_initial_condition_accepted"] += 1
                inf8.set_initial_conditions([dict(case["x0s"][0])])
            except Exception:
                inf8.set_norm_order(case["norm"])
                M8.set_params({k: float(v_) for k, v_ in base_params.items()})
                M8.set_species(dict(MODEL_X0, Dz=4.0))
                inf8.prepare_inference()
                inf8.setup_cost_function()
                v_re = float(inf8.cost_function(np.array(th)))
                C["evaluations_after_refused_setter"] += 1
                if not (v_re == v_before or abs(v_re - v_before) <= 1e-9 * (1 + abs(v_before))):
                    bad("residue-of-refused-reconfiguration", "cost_function(%r) was %r, and is %r after set_initial_conditions refused an entry and the object was prepared again" % (th, v_before, v_re))
        except Exception as e:
            bad("reconfiguration-raises", "evaluating around a refused setter call raised %r" % (e,))
    # stochastic cost on a model whose stochastic simulation is deterministic (nothing can fire)
    if case["stochastic"]:
        import pandas as pd
        from bioscrape.types import Model
        from bioscrape.inference_setup import InferenceSetup
        # measured species follow assignment rules over parameters, the only reaction can never fire: the stochastic trajectories
        # are known constants, and per-trajectory parameter conditions (with different key sets, also an empty one after a
        # non-empty one) decide them
        Ms = Model(species=["A", "B", "C", "Z", "W"], reactions=[(["Z"], ["W"], "massaction", {"k": "k1"})],
                   parameters=[("k1", 1.0), ("pa", 1.5), ("pb", 0.75), ("pc", 4.0)],
                   rules=[("assignment", {"equation": "A = pa"}), ("assignment", {"equation": "B = 2*pb"}), ("assignment", {"equation": "C = pc + 1"})],
                   initial_condition_dict={"A": 0, "B": 0, "C": 0, "Z": 0, "W": 2})
        dflt = {"pa": 1.5, "pb": 0.75, "pc": 4.0}
        r2 = random.Random(case["seed"] + 77)
        sconds = []
        for n in range(case["N"]):
            keys = [k_ for k_ in ("pa", "pb", "pc") if r2.random() < 0.5]
            sconds.append({k_: float("%.3g" % (dflt[k_] * r2.uniform(1.5, 4))) for k_ in keys})
        if case["N"] > 1:
            sconds[0] = sconds[0] or {"pb": 2.5}
            sconds[r2.randrange(1, case["N"])] = {}           # an empty condition after a non-empty one
        fr, ics = [], []
        # every second stochastic case uses as many time points as trajectories (a square N x T time array)
        Ts = case["N"] if (case["N"] > 1 and case.get("idx", case["seed"]) % 6 == 0) else case["T"]
        if Ts == case["N"]:
            C["square_time_arrays"] += 1
        for n in range(case["N"]):
            tp = np.array(case["grids"][n])[:Ts]
            cols = {"time": tp}
            for m in case["meas"]:
                cols[m] = np.array([case["noise"][n][t][case["meas"].index(m)] for t in range(Ts)]) + 3.0
            fr.append(pd.DataFrame(cols))
            ics.append({"Z": 0, "W": float(n + 2)})
        multi = case["N"] > 1
        kw_s = dict(Model=Ms, exp_data=fr if multi else fr[0], measurements=list(case["meas"]), time_column="time", params_to_estimate=["k1"],
                    prior={"k1": ["uniform", 0.0, 10.0]}, initial_conditions=ics if multi else ics[0], norm_order=case["norm"],
                    sim_type="stochastic", N_simulations=1)
        kw_s["parameter_conditions"] = [dict(c_) for c_ in sconds] if multi else dict(sconds[0])
        try:
            infs = InferenceSetup(**kw_s)
            infs.cost_function(np.array([1.0]))
        except Exception as e:
            bad("stochastic-cost-raises" + (":square-time-array" if Ts == case["N"] else ""),
                "stochastic InferenceSetup / cost_function raised %r for N=%d trajectories with %d time points each" % (e, case["N"], Ts))
            infs = None
        tot = 0.0
        for n in range(case["N"]):
            pn = dict(dflt)
            pn.update(sconds[n])
            const = {"A": pn["pa"], "B": 2 * pn["pb"], "C": pn["pc"] + 1}
            for m in case["meas"]:
                tot += float(np.sum(np.abs(np.array(fr[n][m]) - const[m]) ** case["norm"]))
        exp = math.log(1 / 10.0) - tot ** (1.0 / case["norm"])
        for th_ in ((1.5, 0.5, 1.5) if infs is not None else ()):
            v = float(infs.cost_function(np.array([th_])))
            C["stochastic_cost_evaluations"] += 1
            if not abs(v - exp) <= 1e-9 * (1 + abs(exp)):
                bad("stochastic-cost-alignment", "stochastic cost %r, expected %r (rule-driven constant trajectories, N=%d, measured %s, conditions %r)" % (v, exp, case["N"], case["meas"], sconds))
                break
    # a short real emcee run observed by the contract
    if case["emcee"]:
        tmp = tempfile.mkdtemp(prefix="c15-", dir="/var/tmp")
        try:
            M5 = make_model(case)
            inf5, _ = make_setup(case, M5)
            inf5.set_nwalkers(2 * len(case["est"]) + 2)
            inf5.set_nsteps(4)
            inf5.set_init_seed(0.05)
            np.random.seed(case["seed"] % (2 ** 31))
            n0 = len(_cost_log)
            inf5.run_mcmc(progess=False, printout=False, filename_csv=os.path.join(tmp, "a.csv"), filename_txt=os.path.join(tmp, "a.txt"))
            for _id, th, v in _cost_log[n0:]:
                C["emcee_evaluations"] += 1
                exp = expected_cost(case, th)
                if exp is None:
                    continue
                ok = (v == exp) if not math.isfinite(exp) else (math.isfinite(v) and abs(v - exp) <= 1e-4 * (1 + abs(exp)))
                if not ok:
                    bad(mech + ":under-emcee", "during emcee: cost_function(%r)=%r, stated posterior %r" % (th, v, exp))
                    break
        except Exception as e:
            bad("emcee-raises", "short emcee run raised %r" % (e,))
        finally:
            shutil.rmtree(tmp, ignore_errors=True)
    nontrivial = len(case["meas"]) >= 2 or (case["N"] >= 2 and len(set(util.canon(c) for c in case["conds"])) + len(set(util.canon(x) for x in case["x0s"])) > 2)
    return {"viol": viol, "counters": dict(C), "nontrivial": bool(nontrivial)}

"""C17 - copies and pickles of models and results behave like the original."""
import math
from collections import Counter
from vlib import util, ref, gen, spec as specmod

PROPERTY = "C17"
RULE = ("models covering every member type (constitutive / unimolecular / bimolecular / higher mass action, four Hill types, a general rate that "
        "contains sum, product, power, exp, log, abs, Heaviside, min, max, t, volume and constants; fixed / gaussian / gamma delays; additive, "
        "assignment and ode rules) and LineageModels with volume / division / death rules and events and LineageVolumeSplitters with per-species "
        "modes; initialised or not; pickled (protocols 2-5) or deep-copied before and after simulations and edits; copies of copies (depth 3); "
        "oracle: the name-aligned observation record (dictionaries, stoichiometry, rates in four forms via guarded probes, seeded delay draws, "
        "rule effects, seeded deterministic / stochastic / safe / volume / delay / lineage simulations) must be identical, and edits of one "
        "object must leave the other's record unchanged; result objects, cell states, schnitzes and lineages must survive pickling with data and "
        "mutual links; non-trivial = object containing >= 3 member types; distinct by spec x copy route")
ASSUMPTIONS = ["shallow copy.copy is not covered (the property speaks of pickles and deep copies)", "observation equality is exact (same code, same seed)"]
RUN_OPTS = {"batch_size": 4, "timeout_per_case": 120.0}
MINIMA = {"*": {"model_copies_compared": 150, "independence_checks": 100, "lineage_model_copies": 20, "result_objects_pickled": 100,
                "lineages_pickled": 5, "min_member_type_count": 10, "edit_equivalence_checks": 100, "partial_lineages_copied": 20, "queues_copied": 200}}

MEMBERS = ["ConstitutivePropensity", "UnimolecularPropensity", "BimolecularPropensity", "MassActionPropensity", "PositiveHillPropensity",
           "NegativeHillPropensity", "PositiveProportionalHillPropensity", "NegativeProportionalHillPropensity", "GeneralPropensity",
           "NoDelay", "FixedDelay", "GaussianDelay", "GammaDelay", "additive", "assignment", "ode"]

RICH = ["/", ["+", ["*", ["par", "g1"], ["max", ["sp", "A"], ["num", 1.5]]], ["*", ["num", 0.25], ["^", ["+", ["sp", "B"], ["num", 1]], ["^", ["num", 1.5], ["par", "g2"]]]]],
        ["+", ["+", ["num", 1], ["*", ["abs", ["-", ["sp", "A"], ["sp", "B"]]], ["exp", ["neg", ["*", ["num", 0.05], ["t"]]]]]],
         ["+", ["log", ["+", ["num", 2], ["min", ["sp", "A"], ["sp", "B"]]]], ["*", ["step", ["-", ["sp", "A"], ["num", 2.5]]], ["vol"]]]]]


def gen_spec(rnd):
    # explosive networks (e.g. a quadratic autocatalytic general rate) are screened out: they only make simulations slow
    for _ in range(200):
        sp = _gen_spec(rnd)
        if not gen.superlinear_producer(sp) and gen.bounded(sp, 4.0, 300.0) and gen.ssa_screen(sp, 4.0, max_events=3000, seed=rnd.getrandbits(30)):
            return sp
    raise RuntimeError("no bounded C17 spec found")


def _gen_spec(rnd):
    species = ["A", "B", "G", "Q"]
    params = {"g1": gen.nice(rnd, 0.2, 3), "g2": float(rnd.choice([1.0, 1.5, 2.0]))}
    types = ["ma0", "ma1", "ma2", "ma3", "hillpositive", "hillnegative", "proportionalhillpositive", "proportionalhillnegative", "rich", "general"]
    chosen = rnd.sample(types, rnd.randint(3, 7))
    rx = []
    for i, ty in enumerate(chosen):
        tag = "m%d" % i
        if ty.startswith("ma"):
            order = int(ty[2])
            ms = gen.multiset(rnd, species[:3], order)
            r = {"type": "massaction", "reactants": ms, "products": gen.multiset(rnd, species[:3], rnd.randint(0, min(2, max(order, 1)))),
                 "fields": {"k": gen.pfield(rnd, "k_" + tag, gen.nice(rnd, 0.05, 1.0), params)}}
        elif ty in gen.HILL:
            r = {"type": ty, "reactants": [], "products": [rnd.choice(species[:2])], "fields": gen.hill_rxn(rnd, ty, species[:3], params, tag, lo=0.1, hi=3)}
        elif ty == "rich":
            r = {"type": "general", "reactants": [], "products": ["B"], "fields": {}, "ast": RICH}
        else:
            r = {"type": "general", "reactants": [], "products": [rnd.choice(species[:2])], "fields": {}, "ast": gen.general_ast(rnd, species[:3], params, tag)}
        if rnd.random() < 0.45:
            r["delay"] = gen.delay_spec(rnd, species[:3], params, tag, scale=0.3)
            r["delay"]["reactants"] = []
        rx.append(r)
    rx.append({"type": "massaction", "reactants": ["A"], "products": [], "fields": {"k": 0.4}})
    rx.append({"type": "massaction", "reactants": ["B"], "products": [], "fields": {"k": 0.4}})
    rules = []
    if rnd.random() < 0.6:
        rules.append({"type": "additive", "target": "Q", "sources": ["A", "B"], "frequency": rnd.choice(["repeated", "dt"])})
    if rnd.random() < 0.6:
        params["c_r"] = gen.nice(rnd, 0.5, 2)
        species.append("R1")
        rules.append({"type": "assignment", "target": "R1", "ast": ["+", ["*", ["par", "c_r"], ["sp", "A"]], ["num", 1]], "frequency": rnd.choice(["repeated", "start", "0.25"])})
    if rnd.random() < 0.5:
        species.append("O1")
        rules.append({"type": "ode", "target": "O1", "ast": ["*", ["num", 0.5], ["par", "g1"]]})
    x0 = {s: float(rnd.randint(0, 6)) for s in species}
    x0["G"] = float(rnd.randint(1, 2))
    return {"species": species, "x0": x0, "params": params, "reactions": rx, "rules": rules}


SANITIZE_TIERS = ("thorough",)


def sanitize_subset(cases):
    return cases[:50] + [c for c in cases if c["kind"] == "results"][:10]


def generate(tier, seed):
    rnd = util.rng(PROPERTY, tier, seed, "cases")
    n = 200 if tier == "quick" else 2500
    cases = []
    for i in range(n):
        sp = gen_spec(rnd)
        kind = "lineage" if i % 4 == 0 else "model"
        c = {"kind": kind, "spec": sp, "route": rnd.choice(["pickle2", "pickle3", "pickle4", "pickle5", "deepcopy", "deepcopy"]),
             "when": rnd.choice(["fresh", "uninitialised", "after_simulation", "after_edit", "rule_on_initialised"]), "depth": rnd.choice([1, 1, 2, 3]),
             "states": [{s: float(rnd.randint(0, 7)) if rnd.random() < 0.6 else float("%.4g" % rnd.uniform(0, 9)) for s in sp["species"]} for _ in range(4)],
             "seed": rnd.getrandbits(30) + 1,
             # the same edits applied to the original and to the copy afterwards: they must still agree
             "edits": [rnd.choice(["param", "rxn_named", "rxn_numeric", "rxn_hill_numeric", "rule_newparam", "set_existing", "rxn_general", "rxn_new_species"])
                       for _ in range(rnd.randint(1, 4))]}
        if kind == "lineage":
            c["lin"] = {"growth": rnd.choice(["rule_linear", "rule_multiplicative", "rule_ode", "rule_assignment", "event_linear", "event_multiplicative", "event_general"]),
                        "division": rnd.choice(["time", "volume", "deltaV", "general", "event"]),
                        "death": rnd.choice([None, "species", "param", "event"]),
                        "modes": {s: rnd.choice(["binomial", "perfect", "duplicate"]) for s in sp["species"]},
                        "vmode": rnd.choice(["binomial", "perfect"]), "noise": rnd.choice([0.0, 0.4])}
            nlin = sum(1 for c_ in cases if c_["kind"] == "lineage")
            if nlin % 3 == 0:
                # every kind of event at once (volume, division and death events with different rates): their order inside
                # the restored model matters
                c["lin"].update(growth=rnd.choice(["event_linear", "event_multiplicative", "event_general"]), division="event", death="event")
        cases.append(c)
    # result / state / lineage objects
    for i in range(20 if tier == "quick" else 300):
        cases.append({"kind": "results", "spec": gen_spec(rnd), "seed": rnd.getrandbits(30) + 1, "protocol": rnd.choice([2, 3, 4, 5]),
                      "lin": {"growth": "rule_multiplicative", "division": rnd.choice(["time", "volume", "deltaV"]), "death": None,
                              "modes": {}, "vmode": "binomial", "noise": 0.2}})
    return cases


def duplicate(obj, route):
    import pickle, copy
    if route == "deepcopy":
        return copy.deepcopy(obj)
    return pickle.loads(pickle.dumps(obj, protocol=int(route[-1])))


def add_lineage_parts(M, lin, species):
    from bioscrape.lineage import LineageVolumeSplitter
    opts = {s: m for s, m in lin["modes"].items() if s in species}
    opts["volume"] = lin["vmode"]
    vs = LineageVolumeSplitter(M, options=opts, partition_noise=lin["noise"])
    g = lin["growth"]
    if g == "rule_linear":
        M.create_volume_rule("linear", {"growth_rate": 0.8})
    elif g == "rule_multiplicative":
        M.create_volume_rule("multiplicative", {"growth_rate": 0.7})
    elif g == "rule_ode":
        M.create_volume_rule("ode", {"equation": "0.7*volume"})
    elif g == "rule_assignment":
        M.create_volume_rule("assignment", {"equation": "1 + 0.8*t"})
    elif g == "event_linear":
        M.create_volume_event("linear volume", {"growth_rate": 0.1}, "massaction", {"k": 8.0, "species": ""})
    elif g == "event_multiplicative":
        # a constant-rate (general) propensity: a constitutive mass-action event rate scales with the volume, and
        # "rate proportional to V, each event multiplies V" is dV/dt ~ V^2 - the volume reaches infinity in finite time
        # and the lineage simulator never returns
        M.create_volume_event("multiplicative volume", {"growth_rate": 0.08}, "general", {"rate": "9.0"})
    else:
        M.create_volume_event("general volume", {"equation": "volume + 0.1"}, "massaction", {"k": 8.0, "species": ""})
    d = lin["division"]
    if d == "time":
        M.create_division_rule("time", {"threshold": 1.0}, vs)
    elif d == "volume":
        M.create_division_rule("volume", {"threshold": 2.0}, vs)
    elif d == "deltaV":
        M.create_division_rule("deltaV", {"threshold": 1.0}, vs)
    elif d == "general":
        M.create_division_rule("general", {"equation": "volume - 1.9"}, vs)
    else:
        M.create_division_event("division", {}, "general", {"rate": "2*Heaviside(volume - 1.5)"}, vs)
    if lin["death"] == "species":
        M.create_death_rule("species", {"specie": "A", "threshold": 60, "comp": ">"})
    elif lin["death"] == "param":
        M.create_death_rule("param", {"param": "g1", "threshold": 1000, "comp": ">"})
    elif lin["death"] == "event":
        M.create_death_event("death", {}, "massaction", {"k": 0.02, "species": ""})


def build(case, initialize=True):
    sp = case["spec"]
    if case["kind"] == "lineage" or "lin" in case and case["kind"] == "results_lineage":
        from bioscrape.lineage import LineageModel
        M = specmod.build_model(sp, "ctor", cls=LineageModel, initialize=False)
        add_lineage_parts(M, case["lin"], sp["species"])
        if initialize:
            M.py_initialize()
        return M
    return specmod.build_model(sp, "ctor", initialize=initialize)


def run_case(case):
    if case["kind"] == "results":
        return run_results(case)
    import numpy as np
    from vlib import observe
    from bioscrape.simulator import py_simulate_model
    import bioscrape.random as brandom
    C = Counter()
    viol = util.ViolList()
    lineage = case["kind"] == "lineage"
    tp = 0.125 * np.arange(17)
    kindtag = "lineage-model" if lineage else "model"

    def bad(key, msg):
        if len(viol) < 5:
            viol.append({"key": "C17/%s:%s" % (key, kindtag), "msg": "[%s, %s, depth %d] %s" % (case["route"], case["when"], case["depth"], msg)})

    if case["when"] == "uninitialised" and case["seed"] % 2 == 0:
        # a declared species that was never given a value (documented default 0, applied at initialisation)
        case = dict(case, spec=dict(case["spec"], species=list(case["spec"]["species"]) + ["Zu"]))
    try:
        M = build(case, initialize=(case["when"] != "uninitialised"))
    except Exception as e:
        return {"viol": [{"key": "C17/build-raises:" + kindtag, "msg": "building the model raised %r" % (e,)}], "counters": {}, "nontrivial": False}
    if case["when"] == "after_simulation":
        brandom.py_seed_random(case["seed"])
        py_simulate_model(tp.copy(), Model=M, stochastic=True)
        py_simulate_model(tp.copy(), Model=M, stochastic=False)
    if case["when"] == "after_edit":
        M.set_parameter("g1", 1.75)
        M.create_reaction(["A"], ["B"], "massaction", {"k": 0.3})
        M.set_species({"A": 5.0})
    if case["when"] == "rule_on_initialised":
        # the model is initialised (and has been simulated) when a rule that names no parameter is added; the copy is made
        # right afterwards, with no re-initialisation in between
        brandom.py_seed_random(case["seed"])
        py_simulate_model(tp.copy(), Model=M, stochastic=True)
        M.create_rule("assignment" if case["seed"] % 2 else "additive", {"equation": "Q = 2*A + 1" if case["seed"] % 2 else "Q = A + G"})
    # duplicate (copies of copies)
    try:
        D = M
        for _ in range(case["depth"]):
            D = duplicate(D, case["route"])
    except Exception as e:
        bad("cannot-be-copied", "duplicating the model raised %r" % (e,))
        return {"viol": viol, "counters": dict(C), "nontrivial": True}
    members = set(type(p).__name__ for p in M.get_propensities()) | set(type(d).__name__ for d in M.get_delays()) | set(r[0] for r in M.get_rules())
    if case["when"] == "uninitialised":
        # what can be observed without initialising must already agree
        for nm, f in (("species", lambda m: m.get_species_dictionary()), ("params", lambda m: m.get_parameter_dictionary()), ("rules", lambda m: m.get_rules())):
            a, b = f(M), f(D)
            if util.canon(a) != util.canon(b):
                bad("differs:" + nm, "uninitialised copy differs in %s: %r vs %r" % (nm, a, b))
        M.py_initialize()
        D.py_initialize()
    C["model_copies_compared"] += 1
    if lineage:
        C["lineage_model_copies"] += 1
    try:
        a_s = observe.static(M, case["states"])
        b_s = observe.static(D, case["states"])
        ok, path = observe.same(a_s, b_s)
        if not ok:
            bad("differs:" + path.split("/")[0], "copy differs from the original at %s" % path)
        a_d = observe.dynamic(M, case["states"], tp, case["seed"], lineage=lineage)
        b_d = observe.dynamic(D, case["states"], tp, case["seed"], lineage=lineage)
        ok, path = observe.same(a_d, b_d)
        if not ok:
            bad("behaves-differently:" + path.split("/")[0], "copy behaves differently from the original at %s" % path)
    except Exception as e:
        bad("observation-raises", "observing original/copy raised %r" % (e,))
        return {"viol": viol, "counters": dict(C), "nontrivial": True}
    # the same further edits on both sides: a copy is a full substitute for the original, also as a starting point for
    # more model building (new parameters / reactions / rules get fresh slots, existing values stay what they were)
    def apply_edits(X):
        for j, e in enumerate(case.get("edits", [])):
            if e == "param":
                X.create_parameter("zz_new%d" % j, 7.5 + j)
            elif e == "rxn_named":
                X.create_reaction(["A"], ["B"], "massaction", {"k": "k_added%d" % j})
                X.set_parameter("k_added%d" % j, 0.3 + 0.1 * j)
            elif e == "rxn_numeric":
                X.create_reaction(["B"], ["A"], "massaction", {"k": 0.21 + 0.01 * j})
            elif e == "rxn_hill_numeric":
                X.create_reaction([], ["A"], "hillpositive", {"k": 1.1 + j, "K": 2.5, "n": 2, "s1": "B"})
            elif e == "rule_newparam":
                X.create_parameter("c_new%d" % j, 1.25 + j)
                X._add_species("Qn%d" % j)
                X.create_rule("assignment", {"equation": "Qn%d = c_new%d * A + 1" % (j, j)})
            elif e == "rxn_new_species":
                X.create_reaction(["A"], ["Zn%d" % j], "massaction", {"k": "k_z%d" % j})
                X.set_parameter("k_z%d" % j, 0.15)
            elif e == "rxn_general":
                X.create_parameter("gg%d" % j, 0.4 + j)
                X.create_reaction([], ["B"], "general", {"rate": "gg%d * A / (1 + A)" % j})
            else:
                X.set_parameter("g1", 2.125 + j)
        X.py_initialize()

    if case.get("edits"):
        pm_before = {k: float(v) for k, v in M.get_parameter_dictionary().items()}
        try:
            apply_edits(M)
            try:
                apply_edits(D)
            except Exception as e:
                bad("edited-copy-raises", "edits %r that the original accepts raise on the copy: %r" % (case["edits"], e))
                return {"viol": viol, "counters": dict(C), "nontrivial": True}
        except Exception as e:
            return {"error": "edit script raised on the original: %r" % (e,)}
        C["edit_equivalence_checks"] += 1
        pm_after = {k: float(v) for k, v in D.get_parameter_dictionary().items()}
        for k, v in pm_before.items():
            if k != "g1" and pm_after.get(k) != v and not any(r[0] in ("assignment", "additive") and k in str(r[1]) for r in M.get_rules()):
                bad("edited-copy-differs:params", "after edits %r the copy's parameter %s is %r (was %r)" % (case["edits"], k, pm_after.get(k), v))
                break
        try:
            ok, path = observe.same(observe.static(M, case["states"]), observe.static(D, case["states"]))
            if not ok:
                bad("edited-copy-differs:" + path.split("/")[0], "after the same edits %r copy and original differ at %s" % (case["edits"], path))
                return {"viol": viol, "counters": dict(C), "nontrivial": True}     # a corrupted copy is not simulated
            ok, path = observe.same(observe.dynamic(M, case["states"], tp, case["seed"] + 1, lineage=lineage),
                                    observe.dynamic(D, case["states"], tp, case["seed"] + 1, lineage=lineage))
            if not ok:
                bad("edited-copy-behaves-differently:" + path.split("/")[0], "after the same edits %r copy and original behave differently at %s" % (case["edits"], path))
        except Exception as e:
            bad("observation-raises", "observing the edited original/copy raised %r" % (e,))
            return {"viol": viol, "counters": dict(C), "nontrivial": True}
    # independence: edit the copy, the original's record must not move; then the other way round
    for (edited, other, nm) in ((D, M, "copy"), (M, D, "original")):
        before = observe.static(other, case["states"])
        try:
            edited.set_parameter("g1", float(edited.get_parameter_dictionary()["g1"]) * 2 + 1)
            edited.set_species({"A": float(edited.get_species_dictionary()["A"]) + 3, "B": 11.0})
            edited.create_reaction(["B"], ["A", "A"], "massaction", {"k": 0.77})
            edited.py_initialize()
        except Exception as e:
            bad("edit-raises", "editing the %s raised %r" % (nm, e))
            continue
        after = observe.static(other, case["states"])
        C["independence_checks"] += 1
        ok, path = observe.same(before, after)
        if not ok:
            bad("not-independent", "editing the %s changed the other object at %s" % (nm, path))
    return {"viol": viol, "counters": dict(C), "nontrivial": len(members) >= 3, "members": sorted(members)}


def run_results(case):
    import pickle
    import numpy as np
    from bioscrape.types import Volume
    from bioscrape.simulator import (py_simulate_model, VolumeCellState, DelayVolumeCellState, ArrayDelayQueue)
    from bioscrape.lineage import LineageModel, LineageVolumeCellState, py_SimulateCellLineage, py_SimulateSingleCell
    from bioscrape.types import Lineage, ExperimentalLineage, Schnitz
    import bioscrape.random as brandom
    C = Counter()
    viol = util.ViolList()
    proto = case["protocol"]
    tp = 0.125 * np.arange(33)
    M = specmod.build_model(case["spec"], "ctor")

    def bad(key, msg):
        if len(viol) < 6:
            viol.append({"key": "C17/" + key, "msg": "(protocol %d) %s" % (proto, msg)})

    def rt(obj, name):
        C["result_objects_pickled"] += 1
        try:
            return pickle.loads(pickle.dumps(obj, protocol=proto))
        except Exception as e:
            bad("cannot-be-pickled:" + name, "%s cannot be pickled: %r" % (name, e))
            return None

    def eq(a, b):
        return a is not None and b is not None and np.array_equal(np.asarray(a, dtype=float), np.asarray(b, dtype=float), equal_nan=True)

    runs = {"SSAResult": dict(stochastic=True), "SSAResult(deterministic)": dict(stochastic=False), "VolumeSSAResult": dict(stochastic=True, volume=1.5)}
    if M.has_delays():
        runs["DelaySSAResult"] = dict(stochastic=True, delay=True)
        runs["DelayVolumeSSAResult"] = dict(stochastic=True, delay=True, volume=1.5)
    for name, kw in runs.items():
        brandom.py_seed_random(case["seed"])
        r = py_simulate_model(tp.copy(), Model=M, return_dataframe=False, **kw)
        r2 = rt(r, name)
        if r2 is None:
            continue
        if not eq(r.py_get_result(), r2.py_get_result()):
            bad("result-data-lost:" + name, "%s: py_get_result differs after pickling" % name)
        try:
            if not eq(r.py_get_timepoints(), r2.py_get_timepoints()):
                bad("result-data-lost:" + name, "%s: time axis differs after pickling (%r)" % (name, r2.py_get_timepoints()))
        except Exception as e:
            bad("result-data-lost:" + name, "%s: time axis unusable after pickling: %r" % (name, e))
        if "Volume" in name:
            try:
                if not eq(r.py_get_volume(), r2.py_get_volume()) or bool(r.py_cell_divided()) != bool(r2.py_cell_divided()):
                    bad("result-data-lost:" + name, "%s: volume trace / divided flag differ after pickling" % name)
            except Exception as e:
                bad("result-data-lost:" + name, "%s: volume accessors fail after pickling: %r" % (name, e))
        if "Delay" in name:
            try:
                q1, q2 = r.py_get_delay_queue(), r2.py_get_delay_queue()
                n = len(case["spec"]["reactions"])
                a1, a2 = np.zeros(n), np.zeros(n)
                for _ in range(len(tp) + 1):
                    q1c = q1
                    q1.py_get_next_reactions(a1); q2.py_get_next_reactions(a2)
                    if not eq(a1, a2) or q1.py_get_next_queue_time() != q2.py_get_next_queue_time():
                        bad("result-data-lost:" + name, "%s: delay queue differs after pickling" % name)
                        break
                    q1.py_advance_time(); q2.py_advance_time()
            except Exception as e:
                bad("result-data-lost:" + name, "%s: delay queue unusable after pickling: %r" % (name, e))
    # delay queues on their own: random fill (also the last slot of the horizon, where everything at or beyond the horizon is
    # collected), some advances, then pickle / deepcopy; the restored queue must deliver exactly what the original delivers
    import copy as _copy0
    import random as _random0
    rq = _random0.Random(case["seed"] + 99)
    for _ in range(12):
        R_, cols_ = rq.randint(1, 2), rq.randint(2, 5)
        dtq = 2.0 ** rq.randint(-3, 0)
        q0 = ArrayDelayQueue.setup_queue(R_, cols_, dtq)
        tnow = 0.0
        for _op in range(rq.randint(1, 10)):
            if rq.random() < 0.7:
                when = rq.choice([tnow + dtq * rq.randint(1, cols_), tnow + dtq * (cols_ + rq.randint(0, 3)), tnow + dtq * cols_, tnow + 0.3 * dtq])
                q0.py_add_reaction(when, rq.randrange(R_), float(rq.randint(1, 9)))
            else:
                q0.py_advance_time()
                tnow += dtq
        for how in ("pickle", "deepcopy"):
            C["queues_copied"] += 1
            try:
                q1 = pickle.loads(pickle.dumps(q0, protocol=proto)) if how == "pickle" else _copy0.deepcopy(q0)
            except Exception as e:
                bad("cannot-be-pickled:ArrayDelayQueue", "ArrayDelayQueue (%s) raised %r" % (how, e))
                continue
            qa, qb = q0.py_copy(), q1
            a_, b_ = np.zeros(R_), np.zeros(R_)
            for k_ in range(cols_ + 1):
                qa.py_get_next_reactions(a_); qb.py_get_next_reactions(b_)
                if qa.py_get_next_queue_time() != qb.py_get_next_queue_time() or not np.array_equal(a_, b_):
                    bad("result-data-lost:ArrayDelayQueue", "queue (%d reactions, %d slots, dt %g) after %s: slot %d at time %r delivers %r, the original %r at time %r" % (
                        R_, cols_, dtq, how, k_, qb.py_get_next_queue_time(), list(b_), list(a_), qa.py_get_next_queue_time()))
                    break
                qa.py_advance_time(); qb.py_advance_time()
    # cell states
    st = np.array([3.0, 1.0, 4.0, 1.0, 5.0][: len(M.get_species_list())] + [0.0] * max(0, len(M.get_species_list()) - 5))
    v = VolumeCellState()
    v.py_set_time(1.25); v.py_set_volume(2.5); v.py_set_state(st.copy())
    v2 = rt(v, "VolumeCellState")
    if v2 is not None and not (v2.py_get_time() == 1.25 and v2.py_get_volume() == 2.5 and eq(v2.py_get_state(), st)):
        bad("result-data-lost:VolumeCellState", "VolumeCellState differs after pickling")
    dv = DelayVolumeCellState()
    dv.py_set_time(0.5); dv.py_set_volume(1.5); dv.py_set_state(st.copy())
    q = ArrayDelayQueue.setup_queue(2, 4, 0.25)
    q.py_add_reaction(0.5, 1, 3.0)
    dv.py_set_delay_queue(q)
    dv2 = rt(dv, "DelayVolumeCellState")
    if dv2 is not None:
        try:
            ok = dv2.py_get_time() == 0.5 and dv2.py_get_volume() == 1.5 and eq(dv2.py_get_state(), st) and dv2.py_get_delay_queue() is not None
        except Exception:
            ok = False
        if not ok:
            bad("result-data-lost:DelayVolumeCellState", "DelayVolumeCellState differs after pickling (time/volume/state/queue)")
    lv = LineageVolumeCellState(v0=1.0, t0=0.25, state=st.copy(), volume=1.75, time=0.75, divided=1, dead=-1)
    lv2 = rt(lv, "LineageVolumeCellState")
    if lv2 is not None and not (lv2.py_get_time() == 0.75 and lv2.py_get_volume() == 1.75 and eq(lv2.py_get_state(), st) and lv2.py_get_initial_time() == 0.25
                                and lv2.py_get_initial_volume() == 1.0):
        bad("result-data-lost:LineageVolumeCellState", "LineageVolumeCellState differs after pickling")
    # lineages
    lc = dict(case)
    lc["kind"] = "lineage"
    LM = build(lc)
    brandom.py_seed_random(case["seed"] + 5)
    lin = py_SimulateCellLineage(tp.copy(), Model=LM)
    C["lineages_pickled"] += 1
    lin2 = rt(lin, "Lineage")
    if lin2 is not None:
        n = lin.py_size()
        if lin2.py_size() != n:
            bad("lineage-links:Lineage", "lineage has %d schnitzes after pickling, %d before" % (lin2.py_size(), n))
        else:
            old = [lin.py_get_schnitz(i) for i in range(n)]
            new = [lin2.py_get_schnitz(i) for i in range(n)]
            pos = {id(s): i for i, s in enumerate(old)}
            for i in range(n):
                if not (eq(old[i].py_get_time(), new[i].py_get_time()) and eq(old[i].py_get_data(), new[i].py_get_data()) and eq(old[i].py_get_volume(), new[i].py_get_volume())):
                    bad("result-data-lost:Schnitz", "schnitz %d: time/data/volume differ after pickling" % i)
                    break
                p_old, p_new = old[i].py_get_parent(), new[i].py_get_parent()
                if (p_old is None) != (p_new is None) or (p_old is not None and new[pos[id(p_old)]] is not p_new):
                    bad("lineage-links:Lineage", "schnitz %d: parent link is not the restored object of the same index" % i)
                    break
                for d_old, d_new in zip(old[i].py_get_daughters(), new[i].py_get_daughters()):
                    if (d_old is None) != (d_new is None) or (d_old is not None and new[pos[id(d_old)]] is not d_new):
                        bad("lineage-links:Lineage", "schnitz %d: daughter link is not the restored object of the same index" % i)
                        break
        # a sub-lineage (one cell and its descendants) and a lineage assembled from part of a family: links that leave
        # the container (the chosen cell's mother, and through her the sister) are part of what must survive
        import copy as _copy
        nonfounders = [i for i in range(lin.py_size()) if lin.py_get_schnitz(i).py_get_parent() is not None]
        if nonfounders:
            ci = nonfounders[case["seed"] % len(nonfounders)]
            cell = lin.py_get_schnitz(ci)
            sub = cell.get_sub_lineage()
            part = ExperimentalLineage({"A": 0, "B": 1})
            for i in nonfounders:
                part.py_add_schnitz(lin.py_get_schnitz(i))
            for name, obj, root_old in (("sub-lineage", sub, cell), ("partial ExperimentalLineage", part, lin.py_get_schnitz(nonfounders[0]))):
                for how in ("pickle", "deepcopy"):
                    C["partial_lineages_copied"] += 1
                    try:
                        obj2 = pickle.loads(pickle.dumps(obj, protocol=proto)) if how == "pickle" else _copy.deepcopy(obj)
                    except Exception as e:
                        bad("cannot-be-pickled:" + name, "%s (%s) raised %r" % (name, how, e))
                        continue
                    if obj2.py_size() != obj.py_size():
                        bad("lineage-links:" + name, "%s has %d schnitzes after %s, %d before" % (name, obj2.py_size(), how, obj.py_size()))
                        continue
                    r2 = obj2.py_get_schnitz(0)
                    p_old, p_new = root_old.py_get_parent(), r2.py_get_parent()
                    if p_new is None:
                        bad("lineage-links:" + name, "%s after %s: the first cell has lost its mother (the mother is outside the container)" % (name, how))
                        continue
                    if not (eq(p_old.py_get_time(), p_new.py_get_time()) and eq(p_old.py_get_data(), p_new.py_get_data())):
                        bad("result-data-lost:" + name, "%s after %s: the restored mother's record differs" % (name, how))
                    dn = p_new.py_get_daughters()
                    if dn is None or not any(d is r2 for d in dn):
                        bad("lineage-links:" + name, "%s after %s: the restored mother does not list the cell as her daughter (links not mutual)" % (name, how))
                    elif sum(d is not None for d in dn) != sum(d is not None for d in p_old.py_get_daughters()):
                        bad("lineage-links:" + name, "%s after %s: the sister reachable through the mother is gone" % (name, how))
        el = ExperimentalLineage({"A": 0, "B": 1})
        for i in range(lin.py_size()):
            el.py_add_schnitz(lin.py_get_schnitz(i))
        el2 = rt(el, "ExperimentalLineage")
        if el2 is not None and (el2.py_size() != el.py_size() or el2.py_get_species_index("B") != 1):
            bad("result-data-lost:ExperimentalLineage", "ExperimentalLineage differs after pickling")
        s0 = lin.py_get_schnitz(0)
        s02 = rt(s0, "Schnitz")
        if s02 is not None and not (eq(s0.py_get_time(), s02.py_get_time()) and eq(s0.py_get_data(), s02.py_get_data())):
            bad("result-data-lost:Schnitz", "a single schnitz differs after pickling")
    brandom.py_seed_random(case["seed"] + 6)
    r = py_SimulateSingleCell(tp.copy(), Model=LM, return_dataframes=False)
    r2 = rt(r, "SingleCellSSAResult")
    if r2 is not None and not (eq(r.py_get_result(), r2.py_get_result()) and eq(r.py_get_volume(), r2.py_get_volume()) and eq(r.py_get_timepoints(), r2.py_get_timepoints())
                               and r.py_get_divided() == r2.py_get_divided() and r.py_get_dead() == r2.py_get_dead()):
        bad("result-data-lost:SingleCellSSAResult", "SingleCellSSAResult differs after pickling (data / volume / time / divided / dead)")
    return {"viol": viol, "counters": dict(C), "nontrivial": True}


def aggregate(cases, records, tier, seed, run_more):
    mc = Counter()
    for r in records:
        if r and "members" in r:
            for m in r["members"]:
                mc[m] += 1
    return {"counters": {"min_member_type_count": min(mc.get(m, 0) for m in MEMBERS)}, "evidence": {"member_type_counts": dict(mc)}}

"""C04 - deterministic simulation solves the model's rate equations."""
import math
from collections import Counter
from vlib import util, ref, gen, spec as specmod

PROPERTY = "C04"
RULE = ("(a) linear networks (orders 0-1, conversions, production, degradation, delayed products) against the matrix-exponential solution; "
        "(b) non-linear mass action (orders 2-3, homodimers), Hill families, general rational/exponential/explicitly time-dependent rates, "
        "delayed parts, against scipy DOP853 (rtol 1e-12) cross-checked with Radau; parameters in [0.05,5], x0 in [0,20], horizon with T*L<=8, "
        "uniform / geometric / random increasing grids from 0 with 5-200 points; through py_simulate_model (data frame and result object), "
        "DeterministicSimulator.py_simulate on plain and (when the solution stays >= 0.5) safe interfaces; "
        "non-trivial = some species moves by > 10% of its scale; distinct by spec x grid")
ASSUMPTIONS = ["scipy.linalg.expm / solve_ivp are the reference integrators, accepted only when two independent references agree to 1e-8",
               "comparison tolerance 2e-5*(1+max|x_ref|) per species (>100x the observed LSODA error at rtol=atol=1.5e-8)"]
RUN_OPTS = {"batch_size": 6, "timeout_per_case": 90.0}
MINIMA = {"*": {"trajectories_compared": 150, "rows_compared": 5000, "linear_cases": 20, "nonlinear_cases": 40, "time_dependent_cases": 5, "history_runs": 100}}


def gen_case(rnd, i):
    linear = (i % 3 == 0)
    for _ in range(300):
        nsp = rnd.randint(2, 5)
        species = rnd.sample(gen.SPECIES_POOL, nsp)
        params = {}
        rx = []
        tdep = False
        for j in range(rnd.randint(2, 6)):
            tag = "r%d" % j
            if linear:
                order = rnd.choice([0, 1, 1, 1])
                reac = gen.multiset(rnd, species, order)
                prods = gen.multiset(rnd, species, rnd.choice([0, 1, 1, 2]) if order == 0 else rnd.choice([0, 1, 1]))
                r = {"type": "massaction", "reactants": reac, "products": prods, "fields": {"k": gen.pfield(rnd, "k_" + tag, gen.nice(rnd, 0.05, 5), params)}}
            else:
                ty = rnd.choice(["massaction"] * 4 + list(gen.HILL) + ["general", "general", "gcons"])
                if ty == "massaction":
                    order = rnd.choice([1, 2, 2, 3, 0])
                    reac = gen.multiset(rnd, species, order)
                    if order >= 2 and rnd.random() < 0.4:
                        reac = [reac[0]] * order
                    r = {"type": "massaction", "reactants": reac, "products": gen.multiset(rnd, species, rnd.choice([0, 1, 1, 2])),
                         "fields": {"k": gen.pfield(rnd, "k_" + tag, gen.nice(rnd, 0.05, 2), params)}}
                elif ty in gen.HILL:
                    f = gen.hill_rxn(rnd, ty, species, params, tag, lo=0.05, hi=5, frac_n=False)
                    if rnd.random() < 0.4:
                        f["n"] = gen.pfield(rnd, "n_" + tag, float("%.3g" % rnd.uniform(1, 3.5)), params)
                    r = {"type": ty, "reactants": [], "products": gen.multiset(rnd, species, rnd.choice([1, 1, 2])), "fields": f}
                elif ty == "general":
                    td = rnd.random() < 0.4
                    tdep = tdep or td
                    r = {"type": "general", "reactants": [], "products": gen.multiset(rnd, species, rnd.choice([1, 1, 2])), "fields": {},
                         "ast": gen.general_ast(rnd, species, params, tag, time_dep=td)}
                else:
                    s = rnd.choice(species)
                    params["g_" + tag] = gen.nice(rnd, 0.05, 3)
                    ast = ["*", ["*", ["par", "g_" + tag], ["+", ["num", 1], ["/", ["*", ["num", 0.5], ["t"]], ["+", ["num", 1], ["t"]]]]], ["sp", s]]
                    tdep = True
                    r = {"type": "general", "reactants": [s], "products": gen.multiset(rnd, species, rnd.choice([0, 1])), "fields": {}, "ast": ast}
            if rnd.random() < 0.25:
                r["delay"] = gen.delay_spec(rnd, species, params, tag)
                r["delay"]["reactants"] = []
            rx.append(r)
        ma = [r for r in rx if r["type"] == "massaction"]
        if i % 4 == 1 and len(ma) >= 2:
            # one parameter dictionary written once and used for several reactions (the same Python object)
            for r in ma:
                r["fields"] = dict(ma[0]["fields"])
                r["share"] = "g0"
        x0 = {s: (float(rnd.randint(0, 20)) if rnd.random() < 0.4 else float("%.5g" % rnd.uniform(0, 20))) for s in species}
        for s in species:
            if rnd.random() < 0.2:
                x0[s] = 0.0          # species that start exactly at 0 (the boundary of "non-negative initial conditions")
        sp = {"species": species, "x0": x0, "params": params, "reactions": rx, "rules": []}
        # horizon from the Jacobian norm at x0 (finite differences on the reference rhs)
        try:
            L = jac_norm(sp, x0)
        except Exception:
            continue
        T = min(20.0, 8.0 / max(L, 1e-6))
        T = float("%.3g" % T)
        if T < 0.05 or not gen.bounded(sp, T, cap=2000.0):
            continue
        n = rnd.randint(5, 200)
        gk = rnd.choice(["uniform", "uniform", "geometric", "random"])
        if gk == "uniform":
            tp = [T * j / (n - 1) for j in range(n)]
        elif gk == "geometric":
            q = 1.0 + rnd.uniform(0.01, 0.08)
            tp = [0.0] + [T * (q ** j - 1) / (q ** (n - 1) - 1) for j in range(1, n)]
        else:
            tp = sorted(set([0.0, T] + [float("%.6g" % rnd.uniform(0, T)) for _ in range(n - 2)]))
        return {"spec": sp, "tp": tp, "grid_kind": gk, "linear": linear, "tdep": tdep, "T": T}
    raise RuntimeError("no C04 case found")


def jac_norm(sp, x0):
    names = list(x0)
    f0 = ref.rhs(sp, x0, sp["params"], 0.0)
    tot = 0.0
    for s in names:
        x1 = dict(x0)
        h = 1e-6 * (1 + abs(x0[s]))
        x1[s] += h
        f1 = ref.rhs(sp, x1, sp["params"], 0.0)
        tot += sum(((f1[k] - f0[k]) / h) ** 2 for k in f0)
    return math.sqrt(tot)


def generate(tier, seed):
    rnd = util.rng(PROPERTY, tier, seed, "cases")
    n = 150 if tier == "quick" else 3000
    return [gen_case(rnd, i) for i in range(n)]


def prep(itf):
    itf.py_prep_deterministic_simulation()
    return itf


def run_case(case):
    import numpy as np
    from scipy.integrate import solve_ivp
    from scipy.linalg import expm
    import pandas
    from bioscrape.simulator import ModelCSimInterface, SafeModelCSimInterface, DeterministicSimulator, py_simulate_model
    C = Counter()
    viol = util.ViolList()
    sp = case["spec"]
    tp = np.array(case["tp"], dtype=float)
    M = specmod.build_model(sp, "ctor")
    species = M.get_species_list()
    x0 = np.array([float(sp["x0"].get(s, 0)) for s in species])

    def f(t, x):
        d = ref.rhs(sp, dict(zip(species, x)), sp["params"], t)
        v = np.array([d[s] for s in species])
        if np.iscomplexobj(v):
            # a non-integer power of a state the integrator has stepped below 0: the equations are not defined there
            raise ref.Undefined("rate undefined at a negative state")
        return v

    # reference
    try:
        if case["linear"]:
            n = len(species)
            A = np.zeros((n + 1, n + 1))
            b = f(0.0, np.zeros(n))
            for j in range(n):
                e = np.zeros(n)
                e[j] = 1.0
                A[:n, j] = f(0.0, e) - b
            A[:n, n] = b
            ref1 = np.array([(expm(A * t) @ np.append(x0, 1.0))[:n] for t in tp])
            r2 = solve_ivp(f, (0, tp[-1]), x0, method="DOP853", t_eval=tp, rtol=1e-11, atol=1e-13)
            ref2 = r2.y.T
        else:
            r1 = solve_ivp(f, (0, tp[-1]), x0, method="DOP853", t_eval=tp, rtol=1e-12, atol=1e-14)
            r2 = solve_ivp(f, (0, tp[-1]), x0, method="Radau", t_eval=tp, rtol=1e-10, atol=1e-12)
            if not (r1.success and r2.success):
                raise ref.Undefined("reference integration failed")
            ref1, ref2 = r1.y.T, r2.y.T
        scale = 1 + np.abs(ref1).max(axis=0)
        if ref2.shape != ref1.shape or (np.abs(ref1 - ref2) > 1e-8 * scale).any():
            raise ref.Undefined("references disagree")
        xp = x0 * (1 + 1e-7) + 1e-9
        r3 = solve_ivp(f, (0, tp[-1]), xp, method="DOP853", t_eval=tp, rtol=1e-10, atol=1e-12)
        if (np.abs(r3.y.T - ref1) > 100 * 1e-7 * scale * 2).any():
            raise ref.Undefined("sensitive to the initial condition")
    except (ref.Undefined, OverflowError, ZeroDivisionError, ValueError, FloatingPointError):
        C["skipped_ill_conditioned"] += 1
        return {"viol": [], "counters": dict(C), "nontrivial": False}
    # "to within the integrator's tolerance": what LSODA at the library's (default) tolerances delivers on THESE equations is
    # measured with an independent scipy.odeint run on the reference right-hand side.  Where that run leaves the domain of the
    # equations (non-integer power of a state that decays to 0) or is itself off by more than 1e-3 (strong error amplification),
    # the case is outside "solvable to the integrator's tolerance" and is not judged; a moderate amplification widens the band.
    import warnings
    from scipy.integrate import odeint
    try:
        with warnings.catch_warnings():
            warnings.simplefilter("error")
            o = odeint(lambda x, t: f(t, x), x0, tp)
        amp = np.abs(o - ref1).max(axis=0)
        if not np.isfinite(o).all() or (amp > 1e-3 * scale).any():
            raise ref.Undefined("beyond the integrator's tolerance")
    except Exception:
        C["skipped_beyond_integrator_tolerance"] += 1
        return {"viol": [], "counters": dict(C), "nontrivial": False}
    tol = np.maximum(2e-5 * scale, 3 * amp)
    if (3 * amp > 2e-5 * scale).any():
        C["cases_with_widened_band"] += 1
    moves = bool((np.abs(ref1 - x0).max(axis=0) > 0.1 * scale).any())
    runs = {}
    calls = {
        "py_simulate_model(dataframe)": lambda: py_simulate_model(tp.copy(), Model=M, stochastic=False)[species].to_numpy(dtype=float),
        "py_simulate_model(result)": lambda: np.array(py_simulate_model(tp.copy(), Model=M, stochastic=False, return_dataframe=False).py_get_result()),
        "DeterministicSimulator.py_simulate(plain)": lambda: np.array(DeterministicSimulator().py_simulate(prep(ModelCSimInterface(M)), tp.copy()).py_get_result()),
    }
    # the safe interface must coincide with the plain one wherever the solution stays clear of 0, and also AT 0 when every
    # consuming reaction is mass action (its rate vanishes with its reactant, so "do not consume what is not there" changes nothing)
    consumers_massaction = all(r["type"] == "massaction" for r in sp["reactions"]
                               if r["reactants"] or (r.get("delay") and r["delay"].get("reactants")))
    if ref1.min() >= 0.5 or (consumers_massaction and ref1.min() >= -1e-9):
        if ref1.min() < 0.5:
            C["safe_runs_touching_zero"] += 1
        calls["DeterministicSimulator.py_simulate(safe)"] = lambda: np.array(DeterministicSimulator().py_simulate(prep(SafeModelCSimInterface(M)), tp.copy()).py_get_result())
        calls["py_simulate_model(safe=True)"] = lambda: py_simulate_model(tp.copy(), Model=M, stochastic=False, safe=True)[species].to_numpy(dtype=float)
        C["safe_runs"] += 1
    # histories: the interface is prepared first and another model's interface is prepared / simulated before it is used;
    # its trajectory must still be the solution of ITS model's equations
    def distractor():
        Y = specmod.build_model(dict(sp, params={k: (v * 1.7 if isinstance(v, (int, float)) and (k.startswith(("k", "g")) or True) else v) for k, v in sp["params"].items()},
                                     x0={k: float(v) + 1.5 for k, v in sp["x0"].items()}), "ctor")
        return Y

    def prepared_then_other_prepared():
        itx = prep(ModelCSimInterface(M))
        prep(ModelCSimInterface(distractor()))
        return np.array(DeterministicSimulator().py_simulate(itx, tp.copy()).py_get_result())

    def reused_after_other_model():
        itx = prep(ModelCSimInterface(M))
        DeterministicSimulator().py_simulate(itx, tp.copy())
        try:
            py_simulate_model(tp.copy(), Model=distractor(), stochastic=False)
        except Exception:
            pass
        return np.array(DeterministicSimulator().py_simulate(itx, tp.copy()).py_get_result())

    def built_before_values_were_set():
        # the interface is made while the model still holds other initial values and rate constants; they are set
        # (set_species / set_params: value edits, which do not make an interface stale) before the run
        Z = distractor()
        itx = prep(ModelCSimInterface(Z))
        Z.set_species({k_: float(v_) for k_, v_ in sp["x0"].items()})
        Z.set_params({k_: v_ for k_, v_ in sp["params"].items()})
        return np.array(DeterministicSimulator().py_simulate(itx, tp.copy()).py_get_result())

    if case.get("history", True):
        calls["DeterministicSimulator.py_simulate(interface built before set_species/set_params)"] = built_before_values_were_set
        C["history_runs"] += 1
        calls["DeterministicSimulator.py_simulate(interface prepared before another model's)"] = prepared_then_other_prepared
        calls["DeterministicSimulator.py_simulate(interface re-used after another model was simulated)"] = reused_after_other_model
        C["history_runs"] += 2
    frac_hill = any(r["type"] in ref.HILL and ref.pval(r["fields"]["n"], sp["params"]) != int(ref.pval(r["fields"]["n"], sp["params"])) for r in sp["reactions"])
    for name, fn in calls.items():
        try:
            runs[name] = fn()
        except Exception as e:
            C["trajectories_compared"] += 1
            mech = "simulation-raises"
            if isinstance(e, TypeError) and "complex" in str(e) and frac_hill:
                mech = "simulation-raises:fractional-hill-exponent-negative-excursion"
            viol.append({"key": "C04/" + mech, "msg": "%s raised %s: %s" % (name, type(e).__name__, str(e)[:160])})
    for name, X in runs.items():
        C["trajectories_compared"] += 1
        if X.shape != ref1.shape:
            viol.append({"key": "C04/shape", "msg": "%s: result shape %s for %d times x %d species" % (name, X.shape, len(tp), len(species))})
            continue
        C["rows_compared"] += len(tp)
        if not np.array_equal(X[0], x0):
            viol.append({"key": "C04/first-row", "msg": "%s: first row %r != initial condition %r" % (name, list(X[0]), list(x0))})
        err = np.abs(X - ref1)
        if not np.isfinite(X).all() or (err > tol).any():
            i, j = np.unravel_index(np.nanargmax(np.where(np.isfinite(err), err / tol, np.inf)), err.shape)
            kind = "linear" if case["linear"] else ("time-dependent" if case["tdep"] else "nonlinear")
            viol.append({"key": "C04/solution-mismatch:%s" % kind,
                         "msg": "%s (%s grid, %s): species %s at t=%g is %r, exact solution %r (tolerance %.2g)" % (
                             name, case["grid_kind"], kind, species[j], tp[i], X[i, j], ref1[i, j], tol[j])})
    C["linear_cases" if case["linear"] else "nonlinear_cases"] += 1
    if any(r.get("share") for r in sp["reactions"]):
        C["cases_with_shared_parameter_dict"] += 1
    if case["tdep"]:
        C["time_dependent_cases"] += 1
    if any(r.get("delay") for r in sp["reactions"]):
        C["cases_with_delayed_parts"] += 1
    return {"viol": viol[:4], "counters": dict(C), "nontrivial": moves}

"""C05 - stochastic simulation samples the chemical master equation exactly (exact binomial monitors, two-stage)."""
import math
from collections import Counter
from vlib import util, ref, gen, stats, spec as specmod

PROPERTY = "C05"
RULE = ("small finite-state networks from templates x random wiring (conversion chains/cycles, 2A->B, 3A->B, G+2A->C, catalysis with a "
        "consumed resource, competing reactions with rates spread over two decades, Hill families and general rates as propensities, "
        "zero-order production + degradation truncated at mean+12 sigma, repeated reactants with fewer copies than the reaction needs), initial counts 0-8, grids of 3-8 points (uniform, strongly "
        "non-uniform, dense, sparse, starting at 0 or later); n independent seeded runs through SSASimulator on plain and safe interfaces "
        "and py_simulate_model; every marginal cell at every time and the joint cells of three time pairs are tested against the CME "
        "(expm of the generator built from reference propensities) with exact binomial tails at per-cell level 1e-15, rejection must be "
        "confirmed by an independent 4x larger second stage; networks with counter species test waiting time and reaction choice "
        "separately; non-trivial = reference law with >=3 cells of probability >=0.02 at some time and >=2 reactions possible at x0; distinct by network x grid x simulator")
ASSUMPTIONS = ["scipy.linalg.expm of the reference generator is the CME solution", "a bias below ~8*sqrt(p(1-p)/n) per cell would pass",
               "false-alarm probability per run <= 1e-9 per stage (Bonferroni over <= 1e6 cells), two stages required"]
RUN_OPTS = {"batch_size": 1, "timeout_per_case": 900.0, "base_timeout": 120.0}
# every network here is finite (its master equation was built) and a case normally takes seconds, with a 900 s budget: a case that
# does not come back leaves the run inconclusive, it is not waved through
MAX_TIMEOUTS = 0
MINIMA = {"*": {"runs": 100000, "cells_tested": 300, "networks_tested": 6}}


def K(rnd, lo=0.2, hi=3.0):
    return gen.nice(rnd, lo, hi)


def template(rnd, name, variant=None, hill=None):
    """returns (spec, counters_ok, sims)"""
    ma = lambda reac, prod, k: {"type": "massaction", "reactants": reac, "products": prod, "fields": {"k": k}}
    sims = ["ssa", "safe", "psm"]
    cap = None
    if name == "chain":
        cyc = rnd.random() < 0.5
        rx = [ma(["A"], ["B"], K(rnd)), ma(["B"], ["C"], K(rnd))]
        if cyc:
            rx.append(ma(["C"], ["A"], K(rnd)))
        if rnd.random() < 0.5:
            rx.append(ma(["B"], ["A"], K(rnd)))
        sp = {"species": ["C", "A", "B"], "x0": {"A": rnd.randint(2, 7), "B": rnd.randint(0, 2), "C": 0}, "reactions": rx}
        finite = not cyc and len(rx) == 2
    elif name == "homodimer":
        rev = rnd.random() < 0.5
        rx = [ma(["A", "A"], ["B"], K(rnd, 0.1, 1.5))]
        if rev:
            rx.append(ma(["B"], ["A", "A"], K(rnd)))
        rx.append(ma(["A"], ["Z"], K(rnd, 0.05, 0.5)))
        sp = {"species": ["A", "B", "Z"], "x0": {"A": rnd.randint(2, 8), "B": rnd.randint(0, 2), "Z": 0}, "reactions": rx}
        finite = not rev
    elif name == "trimer":
        rx = [ma(["A", "A", "A"], ["B"], K(rnd, 0.02, 0.4)), ma(["G", "A", "A"], ["C", "G"] if rnd.random() < 0.5 else ["C"], K(rnd, 0.05, 0.8)),
              ma(["A"], ["W"], K(rnd, 0.05, 0.6))]
        sp = {"species": ["G", "A", "B", "C", "W"], "x0": {"A": rnd.randint(3, 8), "G": rnd.randint(1, 2), "B": 0, "C": 0, "W": 0}, "reactions": rx}
        finite = True
    elif name == "catalysis":
        rx = [ma(["R", "G"], ["G", "P"], K(rnd, 0.2, 2)), ma(["G"], ["G0"], K(rnd, 0.05, 0.6)), ma(["G0"], ["G"], K(rnd, 0.2, 2))]
        if rnd.random() < 0.5:
            rx.append(ma(["P"], ["R"], K(rnd, 0.1, 1)))
        sp = {"species": ["P", "R", "G", "G0"], "x0": {"R": rnd.randint(2, 6), "G": 1, "G0": rnd.randint(0, 1), "P": 0}, "reactions": rx}
        finite = False
    elif name == "competing":
        m = rnd.randint(3, 5)
        outs = ["X%d" % i for i in range(m)]
        base = K(rnd, 0.05, 0.3)
        rx = [ma(["A"], [o], float("%.4g" % (base * 10 ** rnd.uniform(0, 2)))) for o in outs]
        rx.append(ma([outs[0]], ["A"], K(rnd, 0.5, 3)))
        sp = {"species": ["A"] + outs, "x0": dict({"A": rnd.randint(2, 5)}, **{o: 0 for o in outs}), "reactions": rx}
        finite = False
    elif name == "hill":
        ty = rnd.choice(["hillpositive", "proportionalhillpositive", "proportionalhillnegative", "hillnegative"])
        n = float(rnd.choice([1, 2, 3])) if rnd.random() < 0.6 else float("%.3g" % rnd.uniform(0.5, 3))
        if hill is not None:
            ty, n = hill
        f = {"k": K(rnd, 0.5, 4), "K": K(rnd, 1, 4), "n": n}
        rx = [ma(["A"], ["S"], K(rnd, 0.3, 2))]
        if ty == "hillpositive":
            f["s1"] = "R"
            rx.append({"type": ty, "reactants": ["R"], "products": ["P"], "fields": f})
        elif ty == "hillnegative":
            f["s1"] = "P"
            rx.append({"type": ty, "reactants": ["R"], "products": ["P"], "fields": f})
            sims = ["safe", "psm_safe"]
        else:
            f["s1"] = "S"
            f["d"] = "R"
            rx.append({"type": ty, "reactants": ["R"], "products": ["P"], "fields": f})
        sp = {"species": ["R", "P", "A", "S"], "x0": {"R": rnd.randint(2, 6), "P": 0, "A": rnd.randint(1, 4), "S": rnd.randint(0, 2)}, "reactions": rx}
        finite = True
    elif name == "general":
        form = rnd.randrange(4)
        if variant is not None:
            form = variant % 4
        k = ["num", K(rnd, 0.3, 2)]
        if form == 3:
            # an even power of a difference that is negative in part of the state space (the rate itself stays >= 0)
            ast = ["*", ["*", ["num", K(rnd, 0.05, 0.4)], ["sp", "R"]], ["^", ["-", ["sp", "R"], ["num", 2.5]], ["num", 2]]]
        elif form == 0:
            ast = ["/", ["*", k, ["sp", "R"]], ["+", ["num", 1], ["sp", "P"]]]
        elif form == 1:
            ast = ["*", ["*", k, ["sp", "R"]], ["exp", ["neg", ["*", ["num", 0.3], ["sp", "P"]]]]]
        else:
            ast = ["*", k, ["max", ["-", ["sp", "R"], ["num", 1]], ["num", 0]]]
        rx = [{"type": "general", "reactants": ["R"], "products": ["P"], "fields": {}, "ast": ast},
              {"type": "general", "reactants": [], "products": ["Y"], "fields": {}, "ast": ["*", ["num", K(rnd, 0.3, 2)], ["max", ["-", ["num", float(rnd.randint(2, 4))], ["sp", "Y"]], ["num", 0]]]},
              ma(["P"], ["R"], K(rnd, 0.1, 1))]
        sp = {"species": ["Y", "R", "P"], "x0": {"R": rnd.randint(2, 6), "P": 0, "Y": 0}, "reactions": rx}
        finite = False
    elif name == "birthdeath":
        kp, kd = K(rnd, 0.5, 4), K(rnd, 0.3, 2)
        rx = [ma([], ["A"], kp), ma(["A"], [], kd)]
        if rnd.random() < 0.5:
            rx.append(ma(["A", "A"], ["A"], K(rnd, 0.02, 0.3)))
        sp = {"species": ["A"], "x0": {"A": rnd.randint(0, 6)}, "reactions": rx}
        finite = False
        cap = "poisson"
    elif name == "large_counts":
        # thousands of copies: the number of ordered reactant combinations of a third-order reaction exceeds 2^32; the rate
        # constant is scaled so that only a handful of firings happen on the grid (a chain of < 1500 states)
        form = rnd.randrange(3)
        if form == 0:
            x0 = {"A": rnd.randint(1650, 2400), "B": 0}
            reac, prod = ["A", "A", "A"], ["B"]
            h = x0["A"] * (x0["A"] - 1) * (x0["A"] - 2)
        elif form == 1:
            x0 = {"A": rnd.randint(1600, 2400), "G": rnd.randint(2000, 4000), "C": 0}
            reac, prod = ["A", "G", "A"], ["C", "G"]
            h = x0["A"] * (x0["A"] - 1) * x0["G"]
        else:
            x0 = {"A": rnd.randint(2000, 2600), "B": rnd.randint(2000, 2600), "C": rnd.randint(900, 1300), "D": 0}
            reac, prod = ["A", "B", "C"], ["D"]
            h = x0["A"] * x0["B"] * x0["C"]
        rx = [ma(reac, prod, float("%.4g" % (rnd.uniform(0.8, 2.5) / h)))]
        sp = {"species": sorted(x0), "x0": x0, "reactions": rx}
        finite = False
        sims = ["ssa", "psm"]
    elif name == "hill_open":
        # a repressed production (hillnegative, no reactant) balanced by first-order loss: the one Hill family whose rate does not
        # vanish with a reactant, run here through the PLAIN interface as well (the closed Hill template can only use the safe one
        # for it); the exponent is exactly 1 in every second network.  Truncated like the birth-death template (production <= k)
        nn = [1.0, 2.0, 1.0, 1.5][(variant or 0) % 4]
        rx = [{"type": "hillnegative", "reactants": [], "products": ["A"], "fields": {"k": K(rnd, 1, 4), "K": K(rnd, 1, 4), "n": nn, "s1": "A"}},
              ma(["A"], [], K(rnd, 0.3, 1.5))]
        sp = {"species": ["A"], "x0": {"A": rnd.randint(0, 4)}, "reactions": rx}
        finite = False
        cap = "poisson"
    elif name == "rare_repeat":
        # fewer copies than a repeated reactant needs: the reaction can never fire (A(A-1) = 0 at A = 1, A(A-1)(A-2) = 0 at A <= 2).
        # Its rate constant is small, so that code which does let it fire yields runs that END in a state the master equation
        # cannot reach (a negative count) instead of an endless simulation; an ordinary reversible conversion runs beside it
        form = rnd.randrange(3)
        kc = K(rnd, 0.5, 2)
        kr = float("%.3g" % (kc * rnd.uniform(0.002, 0.004)))
        if form == 0:
            rx, a0 = [ma(["A", "A"], ["B"], kr)], 1
        elif form == 1:
            rx, a0 = [ma(["A", "A", "A"], ["B"], kr)], rnd.choice([1, 2])
        else:
            rx, a0 = [ma(["A", "G", "A"], ["B", "G"], kr)], 1
        rx += [ma(["C"], ["D"], kc), ma(["D"], ["C"], K(rnd, 0.5, 2))]
        sp = {"species": ["A", "B", "G", "C", "D"], "x0": {"A": a0, "B": 0, "G": rnd.randint(1, 3), "C": rnd.randint(2, 4), "D": rnd.randint(1, 2)}, "reactions": rx}
        finite = False
    sp["params"] = {}
    sp["rules"] = []
    return sp, finite, sims, cap


TEMPLATES = ["chain", "rare_repeat", "hill_open", "homodimer", "trimer", "catalysis", "competing", "hill", "general", "birthdeath", "large_counts"]


def make_grid(rnd, rate_scale):
    kind = rnd.choice(["uniform", "nonuniform", "dense", "sparse", "late"])
    mean_wait = 1.0 / max(rate_scale, 1e-3)
    n = rnd.randint(3, 8)
    if kind == "uniform":
        dt = float("%.3g" % (mean_wait * rnd.uniform(0.3, 1.5)))
        tp = [dt * i for i in range(n)]
    elif kind == "nonuniform":
        tp = [0.0]
        for i in range(n - 1):
            tp.append(tp[-1] + mean_wait * 10 ** rnd.uniform(-1.5, 0.7))
    elif kind == "dense":
        dt = mean_wait * rnd.uniform(0.02, 0.1)
        tp = [dt * i for i in range(n)]
    elif kind == "sparse":
        dt = mean_wait * rnd.uniform(3, 8)
        tp = [dt * i for i in range(n)]
    else:
        dt = mean_wait * rnd.uniform(0.3, 1.2)
        tp = [dt * (i + 1) for i in range(n)]
    return [float("%.6g" % t) for t in tp], kind


def generate(tier, seed):
    rnd = util.rng(PROPERTY, tier, seed, "cases")
    nnet = 16 if tier == "quick" else 80
    runs = 200000 if tier == "quick" else 1000000
    cases = []
    i = 0
    while len(cases) < nnet:
        name = TEMPLATES[i % len(TEMPLATES)]
        i += 1
        # the general template cycles through its forms (the power form first), the Hill template through the families with the
        # exponent exactly 1 (the edge where pow() can be short-cut) and other exponents
        hv = [("hillnegative", 1.0), ("hillpositive", 1.0), ("proportionalhillnegative", 1.0), ("proportionalhillpositive", 1.0),
              ("hillnegative", 2.0), ("hillpositive", 1.6)][(i // len(TEMPLATES)) % 6]
        sp, finite, sims, cap = template(rnd, name, variant=(3 + i // len(TEMPLATES)), hill=hv if name == "hill" else None)
        counters = finite and rnd.random() < 0.6
        if counters:
            gen.add_counters(sp)
        x0 = {s: float(v) for s, v in sp["x0"].items()}
        lam = sum(ref.rates(sp, x0, sp["params"], 1.0, "stoch", 0.0))
        tp, gk = make_grid(rnd, lam)
        if cap == "poisson":
            kp = ref.pval(sp["reactions"][0]["fields"]["k"], {})
            m = sp["x0"]["A"] + kp * tp[-1]
            cap = int(m + 12 * math.sqrt(m) + 12)
        cases.append({"template": name, "spec": sp, "tp": tp, "grid_kind": gk, "sims": sims, "cap": cap, "counters": counters, "runs": runs,
                      "stage": 1, "seed": util.seed64(PROPERTY, tier, seed, "net%d" % i)})
    return cases


def simulate_runs(case, sim, n, seed, M, tp):
    import numpy as np
    from bioscrape.simulator import ModelCSimInterface, SafeModelCSimInterface, SSASimulator, py_simulate_model
    import bioscrape.random as brandom
    nsp = len(M.get_species_list())
    out = np.empty((n, len(tp), nsp))
    seeds = util.splitmix64(seed)
    if sim in ("ssa", "safe"):
        itf = SafeModelCSimInterface(M) if sim == "safe" else ModelCSimInterface(M)
        S = SSASimulator()
        for i in range(n):
            if i % 500 == 0:
                brandom.py_seed_random(next(seeds) or 1)
            out[i] = S.py_simulate(itf, tp).py_get_result()
    else:
        for i in range(n):
            if i % 500 == 0:
                brandom.py_seed_random(next(seeds) or 1)
            out[i] = py_simulate_model(tp, Model=M, stochastic=True, safe=(sim == "psm_safe"), return_dataframe=False).py_get_result()
    return out


def run_case(case):
    import numpy as np
    from vlib import cme
    C = Counter()
    sp = case["spec"]
    tp = np.array(case["tp"], dtype=float)
    M = specmod.build_model(sp, "ctor")
    cols = M.get_species_list()
    x0 = {s: int(v) for s, v in sp["x0"].items()}
    S, Sd = ref.stoich(sp)
    species = ref.all_species(sp)
    Smat = np.array([[S[r].get(s, 0) for r in range(len(S))] for s in species], dtype=float)
    Sdmat = np.zeros_like(Smat)
    out = {"sims": {}, "template": case["template"]}
    refs = {}
    for sim in case["sims"]:
        safe = sim in ("safe", "psm_safe")
        key = "safe" if safe else "plain"
        if key not in refs:
            refs[key] = cme.build_reference(sp, x0, tp, "stoch", 1.0, cap=case["cap"], ratefn=cme.safe_rates(sp, species, Smat, Sdmat) if safe else None)
        refd = refs[key]
        n = case["runs"] if sim in ("ssa", "safe") else max(2000, case["runs"] // 25)
        X = simulate_runs(case, sim, n, case["seed"] + hash_sim(sim) + 7919 * case["stage"], M, tp)
        if not np.array_equal(X, np.round(X)):
            out["sims"][sim] = {"rejected": [{"kind": "non-integer state"}], "cells": 0, "min_p": 0.0, "n": n}
            continue
        idx = cme.state_indices(X, cols, refd)
        r = cme.test_law(idx, refd, tp)
        r["n"] = n
        r["states"] = refd["n"]
        r["unknown_states"] = int((idx == refd["n"]).sum())
        r["rejected"] = r["rejected"][:5]
        out["sims"][sim] = r
        C["runs"] += n
        C["cells_tested"] += r["cells"]
    lam = ref.rates(sp, {s: float(v) for s, v in sp["x0"].items()}, sp["params"], 1.0, "stoch", 0.0)
    nontrivial = cme.nontrivial_law(refs[list(refs)[0]]) and sum(1 for r in lam if r > 0) >= 2
    C["networks_tested"] += 1
    return {"viol": [], "counters": dict(C), "nontrivial": nontrivial, "law": out, "nontrivial_n": len(case["sims"]) if nontrivial else 0}


def hash_sim(s):
    return sum(ord(c) * (i + 1) for i, c in enumerate(s)) * 104729


def aggregate(cases, records, tier, seed, run_more):
    viol, ev = [], {"networks": [], "stage1_unconfirmed": 0, "stage2_runs": 0}
    counters = Counter()
    retry = []
    for c, r in zip(cases, records):
        if not r or "law" not in r:
            continue
        summ = {"template": c["template"], "grid": c["grid_kind"], "counters": c["counters"], "sims": {}}
        rej = False
        for sim, s in r["law"]["sims"].items():
            summ["sims"][sim] = {"n": s["n"], "cells": s["cells"], "min_tail": s["min_p"], "states": s.get("states"), "rejections": len(s["rejected"])}
            if s["rejected"]:
                rej = True
        ev["networks"].append(summ)
        if rej:
            c2 = dict(c)
            c2["stage"] = 2
            c2["runs"] = c["runs"] * 4
            retry.append((c, r, c2))
    if retry:
        recs2 = run_more([c2 for _, _, c2 in retry])
        for (c, r1, c2), r2 in zip(retry, recs2):
            ev["stage2_runs"] += 1
            if not r2 or "law" not in r2:
                counters["stage2_inconclusive"] += 1
                continue
            confirmed = [sim for sim, s in r2["law"]["sims"].items() if s["rejected"] and r1["law"]["sims"].get(sim, {}).get("rejected")]
            if confirmed:
                for sim in confirmed:
                    viol.append({"key": "C05/law-mismatch:%s:%s" % (c["template"], "safe" if "safe" in sim else "plain"),
                                 "msg": "empirical law of %s (%s) rejected at both stages against the CME: stage1 %r ; stage2 %r" % (
                                     sim, c["template"], r1["law"]["sims"][sim]["rejected"][:2], r2["law"]["sims"][sim]["rejected"][:2]),
                                 "case": c2})
            else:
                ev["stage1_unconfirmed"] += 1
    return {"viol": viol, "counters": dict(counters), "evidence": ev}

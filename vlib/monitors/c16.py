"""C16 - built-in priors are the log-densities they are named after."""
import math, random
from collections import Counter
from vlib import util, ref, gen

PROPERTY = "C16"
RULE = ("seven prior families x random parameters x values (interior, within 1e-9*scale of each support boundary on both sides, on the "
        "boundary where the density is unambiguous, negative, >1 for beta) and vectors of 1-4 mixed priors with/without 'positive'; "
        "PIDInterface.check_prior (observed through an icontract postcondition on the real method), the single prior methods and "
        "InferenceSetup.cost_function are compared with ref.logpdf (cross-checked against scipy.stats in every child); "
        "non-trivial = evaluation outside the support or within 1e-6 of its boundary, or a vector of >=2 families; distinct by case digest")
ASSUMPTIONS = ["scipy.stats log-densities agree with the hand-written closed forms of vlib/ref.py (asserted at child start)",
               "values are kept where the density does not underflow"]
RUN_OPTS = {"batch_size": 40, "timeout_per_case": 20.0}
MINIMA = {"*": {"evaluations": 3000, "contract_evaluations": 3000, "outside_support": 500, "cost_function_calls": 100, "min_cell": 50, "boundary_exponent_zero": 10}}

FAMILIES = ["uniform", "gaussian", "exponential", "gamma", "beta", "log-uniform", "log-gaussian"]


def rand_prior(rnd, fam):
    if fam == "uniform":
        lo = float("%.4g" % rnd.uniform(-50, 50))
        return [fam, lo, float("%.6g" % (lo + gen.logu(rnd, 0.01, 100)))]
    if fam == "gaussian":
        if rnd.random() < 0.2:
            # a tight prior far from zero (|mean|/sigma up to 1e7): a form of the density that expands the square cancels here
            return [fam, float("%.6g" % (rnd.choice([500.0, 2e4, 1e5, 6.02e6, -3e4]) * rnd.uniform(0.5, 1.5))), rnd.choice([1e-3, 0.01, 0.02, 1.0])]
        return [fam, float("%.4g" % rnd.uniform(-50, 50)), gen.nice(rnd, 0.01, 50)]
    if fam == "exponential":
        return [fam, gen.nice(rnd, 0.01, 50)]
    if fam == "gamma":
        a = float(rnd.randint(1, 6)) if rnd.random() < 0.6 else float("%.3g" % rnd.uniform(0.5, 6))
        if rnd.random() < 0.12:
            a = rnd.choice([1, 1.0])       # exactly exponential: the density at 0 is the rate
        return [fam, a, gen.nice(rnd, 0.05, 20)]
    if fam == "beta":
        f = lambda: (float(rnd.randint(1, 8)) if rnd.random() < 0.6 else float("%.3g" % rnd.uniform(0.5, 8))) if rnd.random() > 0.1 else rnd.choice([1, 1.0])
        return [fam, f(), f()]
    if fam == "log-uniform":
        lo = gen.nice(rnd, 1e-3, 10)
        return [fam, lo, float("%.6g" % (lo * gen.logu(rnd, 1.5, 1e4)))]
    if fam == "log-gaussian":
        return [fam, float("%.3g" % rnd.uniform(-3, 3)), gen.nice(rnd, 0.05, 3)]


def support(prior):
    fam = prior[0]
    if fam in ("uniform", "log-uniform"):
        return prior[1], prior[2]
    if fam == "gaussian":
        return -math.inf, math.inf
    if fam == "beta":
        return 0.0, 1.0
    return 0.0, math.inf


def values_for(rnd, prior):
    """list of (value, cls) with cls in inside / below / above / boundary"""
    fam = prior[0]
    lo, hi = support(prior)
    out = []
    if fam == "uniform":
        w = hi - lo
        interior = lambda: lo + w * rnd.uniform(0.01, 0.99)
        scale = max(abs(lo), abs(hi), w)
    elif fam == "gaussian":
        interior = lambda: prior[1] + prior[2] * rnd.uniform(-25, 25)
        scale = 1.0
    elif fam == "exponential":
        interior = lambda: rnd.uniform(0.001, 25) / prior[1]
        scale = 1 / prior[1]
    elif fam == "gamma":
        interior = lambda: rnd.uniform(0.01, 12) * prior[1] / prior[2]
        scale = prior[1] / prior[2]
    elif fam == "beta":
        interior = lambda: rnd.uniform(0.001, 0.999)
        scale = 1.0
    elif fam == "log-uniform":
        interior = lambda: math.exp(rnd.uniform(math.log(lo), math.log(hi)) * 0.999 + 0.0005 * (math.log(lo) + math.log(hi)))
        scale = hi
    else:
        interior = lambda: math.exp(prior[1] + prior[2] * rnd.uniform(-20, 20))
        scale = math.exp(prior[1])
    for _ in range(4):
        v = interior()
        if lo < v < hi:
            out.append((v, "inside"))
    eps = 1e-9 * scale
    if math.isfinite(lo):
        out.append((lo + max(eps, abs(lo) * 4e-16 * 4), "inside-near"))
        out.append((lo - max(eps, abs(lo) * 4e-16 * 4), "below"))
        out.append((lo - scale * rnd.uniform(0.01, 3), "below"))
        out.append((lo - abs(rnd.uniform(0.5, 40)), "below"))
        if fam in ("uniform", "log-uniform", "exponential") or (fam in ("gamma", "beta") and prior[1] == 1):
            out.append((lo, "boundary"))       # closed support; gamma/beta: exponent exactly 0 at this end, density finite and positive
            if fam in ("gamma", "beta"):
                out.append((rnd.choice([0, 0.0, -0.0]), "boundary"))
    if math.isfinite(hi):
        out.append((hi - max(eps, abs(hi) * 4e-16 * 4), "inside-near"))
        out.append((hi + max(eps, abs(hi) * 4e-16 * 4), "above"))
        out.append((hi + scale * rnd.uniform(0.01, 3), "above"))
        if fam in ("uniform", "log-uniform") or (fam == "beta" and prior[2] == 1):
            out.append((hi, "boundary"))
    if lo == -math.inf:
        out.append((prior[1] - prior[2] * rnd.uniform(1, 28), "inside"))
    return out


def generate(tier, seed):
    rnd = util.rng(PROPERTY, tier, seed, "cases")
    cases = []
    n = 60 if tier == "quick" else 2500
    for i in range(n):
        for fam in FAMILIES:
            pr = rand_prior(rnd, fam)
            pos = rnd.random() < 0.3
            cases.append({"kind": "single", "prior": pr, "positive": pos, "values": values_for(rnd, pr) + ([(-abs(rnd.uniform(0.1, 5)), "negative"), (-rnd.uniform(0.001, 0.99), "negative"), (-rnd.uniform(1.01, 30), "negative")] if pos else []),
                          "cost": (i % 6 == 0)})
    for i in range(n * 3):
        k = rnd.randint(2, 4)
        prs, vals, pos = [], [], []
        for j in range(k):
            pr = rand_prior(rnd, rnd.choice(FAMILIES))
            vv = values_for(rnd, pr)
            v = rnd.choice(vv) if rnd.random() < 0.35 else vv[0]
            prs.append(pr)
            vals.append(v)
            pos.append(rnd.random() < 0.25)
        cases.append({"kind": "vector", "priors": prs, "values": vals, "positive": pos, "cost": (i % 10 == 0)})
    return cases


_pid_log = []


def child_setup():
    # cross-check the reference against scipy.stats
    from scipy import stats
    import numpy as np
    rnd = random.Random(12345)
    for fam in FAMILIES:
        for _ in range(40):
            pr = rand_prior(rnd, fam)
            for v, cl in values_for(rnd, pr):
                if cl in ("boundary",) and fam not in ("gamma", "beta"):
                    continue
                mine = ref.logpdf(pr, v)
                if fam == "uniform":
                    sc = stats.uniform(loc=pr[1], scale=pr[2] - pr[1]).logpdf(v)
                elif fam == "gaussian":
                    sc = stats.norm(pr[1], pr[2]).logpdf(v)
                elif fam == "exponential":
                    sc = stats.expon(scale=1 / pr[1]).logpdf(v)
                elif fam == "gamma":
                    sc = stats.gamma(pr[1], scale=1 / pr[2]).logpdf(v)
                elif fam == "beta":
                    sc = stats.beta(pr[1], pr[2]).logpdf(v)
                elif fam == "log-uniform":
                    sc = stats.loguniform(pr[1], pr[2]).logpdf(v)
                else:
                    sc = stats.lognorm(s=pr[2], scale=math.exp(pr[1])).logpdf(v)
                if not ((mine == sc) or (math.isfinite(mine) and abs(mine - sc) <= 1e-9 * (1 + abs(sc)))):
                    raise AssertionError("reference log-density disagrees with scipy.stats: %r at %r: %r vs %r" % (pr, v, mine, sc))
    # runtime contract (observer) on the real method
    import icontract
    import bioscrape.pid_interfaces as pi

    def prior_logged(self, params_dict, result):
        _pid_log.append((dict(params_dict), result, {k: list(self.prior[k]) for k in params_dict}))
        return True

    pi.PIDInterface.check_prior = icontract.ensure(prior_logged, error=AssertionError)(pi.PIDInterface.check_prior)


def expected_vector(priors, positive, values):
    """(finite?, value)"""
    tot = 0.0
    for pr, pos, v in zip(priors, positive, values):
        if pos and v < 0:
            return False, None
        lp = ref.logpdf(pr, v)
        if not math.isfinite(lp):
            return False, None
        tot += lp
    return True, tot


def run_case(case):
    import numpy as np
    import pandas as pd
    from bioscrape.types import Model
    from bioscrape.pid_interfaces import PIDInterface
    from bioscrape.inference_setup import InferenceSetup
    C = Counter()
    cells = Counter()
    viol = util.ViolList()
    names = ["p0", "p1", "p2", "p3"]
    M = Model(species=["A"], reactions=[([], ["A"], "massaction", {"k": "p0"}), (["A"], [], "massaction", {"k": "p1"}),
                                        (["A"], ["A", "A"], "massaction", {"k": "p2"}), (["A", "A"], ["A"], "massaction", {"k": "p3"})],
              parameters=[(n, 1.0) for n in names], initial_condition_dict={"A": 1.0})
    nontrivial = False

    def check(tag, got, finite, exp, fam, ctx):
        C["evaluations"] += 1
        try:
            g = float(got)
        except Exception:
            viol.append({"key": "C16/%s:not-a-number" % fam, "msg": "%s returned %r for %s" % (tag, got, ctx)})
            return
        if finite and exp < -650:
            C["skipped_underflow"] += 1   # exp(-650) is at the edge of the double range: not asserted either way
            return
        if finite:
            if not (math.isfinite(g) and abs(g - exp) <= 1e-9 * (1 + abs(exp))):
                viol.append({"key": "C16/%s:wrong-density" % fam, "msg": "%s = %r, log-density = %r for %s" % (tag, g, exp, ctx)})
        else:
            C["outside_support"] += 1
            if math.isfinite(g):
                viol.append({"key": "C16/%s:finite-outside-support" % fam, "msg": "%s = %r (finite) outside the support for %s" % (tag, g, ctx)})

    if case["kind"] == "single":
        pr = list(case["prior"])
        fam = pr[0]
        prl = pr + (["positive"] if case["positive"] else [])
        pid = PIDInterface(["p0"], M, {"p0": prl})
        meth = {"uniform": pid.uniform_prior, "gaussian": pid.gaussian_prior, "exponential": pid.exponential_prior, "gamma": pid.gamma_prior,
                "beta": pid.beta_prior, "log-uniform": pid.log_uniform_prior, "log-gaussian": pid.log_gaussian_prior}[fam]
        for v, cl in case["values"]:
            fin, exp = expected_vector([pr], [case["positive"]], [v])
            ctx = "prior %r value %r (%s)" % (prl, v, cl)
            n0 = len(_pid_log)
            try:
                got = pid.check_prior({"p0": v})
            except Exception as e:
                C["evaluations"] += 1
                viol.append({"key": "C16/%s:%s" % (fam, "raises-outside-support" if not fin else "raises-inside-support"),
                             "msg": "check_prior raised %r for %s" % (e, ctx)})
                continue
            if len(_pid_log) == n0 + 1:
                C["contract_evaluations"] += 1
                got = _pid_log[-1][1]
            check("check_prior", got, fin, exp, fam, ctx)
            if not (case["positive"] and v < 0):
                check(fam + "_prior", meth("p0", v), fin, exp, fam, ctx)
            if cl == "boundary" and fam in ("gamma", "beta"):
                C["boundary_exponent_zero"] += 1
            cells[(fam, "inside" if cl.startswith("inside") or cl == "boundary" else ("below" if cl in ("below", "negative") else "above"))] += 1
            if cl != "inside":
                nontrivial = True
        if case["cost"]:
            df = pd.DataFrame({"time": np.linspace(0, 1, 5), "A": np.ones(5)})
            inf = InferenceSetup(Model=M, exp_data=df, measurements=["A"], time_column="time", params_to_estimate=["p0"],
                                 prior={"p0": prl}, initial_conditions={"A": 1.0}, sim_type="deterministic")
            for v, cl in case["values"]:
                fin, exp = expected_vector([pr], [case["positive"]], [v])
                if fin:
                    if cl in ("boundary", "inside-near") and v >= 0 and exp > -650:
                        # a point of the (closed) support is not rejected: the posterior is a number, not -inf / nan
                        c = inf.cost_function(np.array([v]))
                        C["cost_function_calls_in_support_edge"] += 1
                        if not math.isfinite(c):
                            viol.append({"key": "C16/%s:posterior-rejects-support-point" % fam,
                                         "msg": "cost_function(%r) = %r although the log-prior there is %r (prior %r, %s)" % (v, c, exp, prl, cl)})
                    continue
                c = inf.cost_function(np.array([v]))
                C["cost_function_calls"] += 1
                if c != -math.inf:
                    viol.append({"key": "C16/%s:posterior-finite-outside-support" % fam,
                                 "msg": "cost_function(%r) = %r, expected -inf (prior %r, %s)" % (v, c, prl, cl)})
            # the prior of the SAME InferenceSetup object is replaced: from then on the new prior's support decides
            # (a positive interval: the value is also used as a rate constant in the simulated model)
            lo_, hi_ = (2.0, 3.0) if (fam != "uniform" or pr[2] < 1.0) else (pr[2] + 1.0, pr[2] + 2.0)
            inf.set_prior({"p0": ["uniform", lo_, hi_]})
            inf.setup_cost_function()
            c_in, c_out, c_neg = inf.cost_function(np.array([(lo_ + hi_) / 2])), inf.cost_function(np.array([hi_ + 7.5])), inf.cost_function(np.array([lo_ - 0.5]))
            C["cost_function_calls_after_set_prior"] += 3
            if not math.isfinite(c_in) or c_out != -math.inf or c_neg != -math.inf:
                viol.append({"key": "C16/uniform:prior-replaced-on-used-object",
                             "msg": "after set_prior(uniform[%r,%r]) on an InferenceSetup that had prior %r: cost inside %r, above %r, below %r (expected finite, -inf, -inf)" % (
                                 lo_, hi_, prl, c_in, c_out, c_neg)})
    else:
        prs = [list(p) for p in case["priors"]]
        k = len(prs)
        prior = {names[i]: prs[i] + (["positive"] if case["positive"][i] else []) for i in range(k)}
        vals = [v for v, cl in case["values"]]
        pid = PIDInterface(names[:k], M, prior)
        fin, exp = expected_vector(prs, case["positive"], vals)
        fams = "+".join(sorted(set(p[0] for p in prs)))
        n0 = len(_pid_log)
        bad_fam = "vector"
        try:
            got = pid.check_prior({names[i]: vals[i] for i in range(k)})
        except Exception as e:
            C["evaluations"] += 1
            return {"viol": [{"key": "C16/vector:raises", "msg": "check_prior raised %r for priors %r values %r" % (e, prior, vals)}],
                    "counters": dict(C), "nontrivial": True}
        if len(_pid_log) == n0 + 1:
            C["contract_evaluations"] += 1
        if not fin:
            for pr_, pos_, v_ in zip(prs, case["positive"], vals):
                if (pos_ and v_ < 0) or not math.isfinite(ref.logpdf(pr_, v_)):
                    bad_fam = pr_[0]
        check("check_prior(vector)", got, fin, exp, bad_fam if not fin else "vector-sum", "priors %r values %r" % (prior, vals))
        if fin:
            singles = sum(float(pid.check_prior({names[i]: vals[i]})) for i in range(k))
            C["sum_rule_checked"] += 1
            if math.isfinite(singles) != math.isfinite(float(got)) and exp > -650:
                viol.append({"key": "C16/vector-sum", "msg": "check_prior(vector)=%r but sum of singles=%r" % (got, singles)})
            if math.isfinite(singles) and math.isfinite(float(got)) and not abs(singles - float(got)) <= 1e-9 * (1 + abs(singles)):
                viol.append({"key": "C16/vector-sum", "msg": "check_prior(vector)=%r but sum of singles=%r" % (got, singles)})
        nontrivial = len(set(p[0] for p in prs)) >= 2
        if case["cost"]:
            df = pd.DataFrame({"time": np.linspace(0, 1, 5), "A": np.ones(5)})
            inf = InferenceSetup(Model=M, exp_data=df, measurements=["A"], time_column="time", params_to_estimate=names[:k],
                                 prior=prior, initial_conditions={"A": 1.0}, sim_type="deterministic")
            c = inf.cost_function(np.array(vals))
            C["cost_function_calls"] += 1
            if not fin and c != -math.inf:
                viol.append({"key": "C16/%s:posterior-finite-outside-support" % bad_fam, "msg": "cost_function(%r) = %r, expected -inf (priors %r)" % (vals, c, prior)})
            if fin and not math.isfinite(c) and all(v > 0 for v in vals):
                C["finite_prior_nonfinite_cost"] += 1
    return {"viol": viol[:5], "counters": dict(C), "nontrivial": nontrivial, "cells": {"|".join(k): v for k, v in cells.items()}}


def aggregate(cases, records, tier, seed, run_more):
    cells = Counter()
    for r in records:
        if r and "cells" in r:
            for k, v in r["cells"].items():
                cells[k] += v
    want = []
    for fam in FAMILIES:
        want.append((fam, "inside"))
        if fam != "gaussian":
            want.append((fam, "below"))
        if fam in ("uniform", "beta", "log-uniform"):
            want.append((fam, "above"))
    mn = min(cells.get("|".join(w), 0) for w in want)
    return {"counters": {"min_cell": mn}, "evidence": {"cells_family_region": dict(cells)}}

"""C12 - writing a model to SBML and reading it back preserves its behaviour."""
import math
from collections import Counter
from vlib import util, ref, gen, spec as specmod
from vlib.monitors import c14

PROPERTY = "C12"
RULE = ("models over every propensity type (numeric and named parameters), orders 0-4 with repeats and catalysts, delayed reactants/products "
        "with each delay family (numeric and named delay parameters), additive/assignment rules with every frequency (repeated, start, dt, grid "
        "time), general rates over + - * / ^ exp log, identifier-safe names incl. sympy-colliding single letters; deterministic and stochastic "
        "export, import through Model(sbml_filename=) and import_sbml; compared by name: species and initial values, parameter values, update "
        "and delay-update arrays, per-reaction rates at 8 states in the four evaluation forms (guarded probes), delay class and 20 seeded delay "
        "draws, rule frequencies and rule effects at 5 states x 3 (time, step) settings; two writes must agree up to the model id; "
        "non-trivial = >=2 propensity types and a delay or a rule; distinct by spec x export kind")
ASSUMPTIONS = ["observational equivalence is asserted on the listed observables only", "ode rules are excluded (exported as SBML rate rules, which the property does not cover)"]
RUN_OPTS = {"batch_size": 10, "timeout_per_case": 40.0}
MINIMA = {"*": {"roundtrips": 150, "rate_comparisons": 5000, "delay_comparisons": 50, "rule_effect_comparisons": 300, "double_writes": 150, "second_exports_after_value_change": 100}}


def add_rules(rnd, sp, grid_time):
    species = list(sp["species"])
    nr = rnd.choice([0, 1, 1, 2, 3])
    rules = []
    targets = []
    for i in range(nr):
        # scheduled times also with many significant digits (a rule fires when the time EQUALS its scheduled time, so the
        # number has to survive the text round trip exactly)
        freq = rnd.choice(["repeated", "repeated", "start", "dt", repr(grid_time), repr(grid_time),
                           rnd.choice(["1000.125", "0.1234567", repr(0.1 + 0.2), repr(grid_time * 1024 + 1.0 / 3), "2.5e-7", repr(float(rnd.randint(10 ** 6, 10 ** 7)) + 0.5)])])
        kind = rnd.choice(["additive", "assignment", "assignment", "assignment_param"])
        tname = "T%d" % i
        if kind == "additive":
            src = rnd.sample(species, min(len(species), rnd.randint(1, 3)))
            rules.append({"type": "additive", "target": tname, "sources": src, "frequency": freq})
            sp["species"].append(tname)
            sp["x0"][tname] = float(rnd.randint(0, 5))
            targets.append(tname)
        elif kind == "assignment":
            pool = species + targets
            pn = "c_%d" % i
            sp["params"][pn] = gen.nice(rnd, 0.2, 4)
            a = ["+", ["*", ["par", pn], ["sp", rnd.choice(pool)]], ["/", ["sp", rnd.choice(pool)], ["+", ["num", 1], ["sp", rnd.choice(species)]]]]
            if rnd.random() < 0.3:
                a = ["*", a, ["exp", ["neg", ["*", ["num", 0.1], ["sp", rnd.choice(species)]]]]]
            rules.append({"type": "assignment", "target": tname, "ast": a, "frequency": freq})
            sp["species"].append(tname)
            sp["x0"][tname] = float(rnd.randint(0, 5))
            targets.append(tname)
        else:
            pn = "q_%d" % i
            sp["params"][pn] = gen.nice(rnd, 0.2, 4)
            a = ["+", ["num", float("%.3g" % rnd.uniform(0.1, 2))], ["*", ["num", 0.5], ["sp", rnd.choice(species)]]]
            rules.append({"type": "assignment", "target": pn, "ast": a, "frequency": freq})
            # let some reaction read the rule-assigned parameter
            sp["reactions"].append({"type": "general", "reactants": [], "products": [rnd.choice(species)], "fields": {},
                                    "ast": ["*", ["par", pn], ["sp", rnd.choice(species)]]})
    sp["rules"] = rules
    return sp


def generate(tier, seed):
    rnd = util.rng(PROPERTY, tier, seed, "cases")
    n = 240 if tier == "quick" else 5000
    cases = []
    for i in range(n):
        sp = c14.gen_spec(rnd)
        gt = rnd.choice([0.5, 1.25, 2.0])
        add_rules(rnd, sp, gt)
        cases.append({"spec": sp, "stochastic": (i % 2 == 1), "route": "ctor" if i % 3 else "import_sbml", "grid_time": gt,
                      "states": c14.states_for(rnd, sp, False)[:4] + c14.states_for(rnd, sp, True)[:4],
                      "V": gen.nice(rnd, 0.2, 5), "seed": util.seed64(PROPERTY, tier, seed, "c%d" % i) % (2 ** 31)})
    return cases


def run_case(case):
    import os, re, tempfile, shutil
    import numpy as np
    from bioscrape.types import Model
    from bioscrape.sbmlutil import import_sbml
    from bioscrape.simulator import ModelCSimInterface
    import bioscrape.random as brandom
    C = Counter()
    viol = util.ViolList()
    sp = case["spec"]
    M = specmod.build_model(sp, "ctor")
    tmp = tempfile.mkdtemp(prefix="c12-", dir="/var/tmp")
    kind = "stochastic" if case["stochastic"] else "deterministic"

    def bad(key, msg):
        if len(viol) < 6:
            viol.append({"key": "C12/" + key, "msg": "(%s export) %s" % (kind, msg)})

    try:
        p1, p2 = os.path.join(tmp, "a.xml"), os.path.join(tmp, "b.xml")
        try:
            M.write_sbml_model(p1, stochastic_model=case["stochastic"])
            M.write_sbml_model(p2, stochastic_model=case["stochastic"])
        except Exception as e:
            if "zz_scribbled" in str(e) or "zz_extra" in str(e):
                # the export tripped over what the harness wrote into ITS OWN lists / dictionaries after the model was built
                return {"viol": [{"key": "%s/export-follows-callers-containers" % PROPERTY,
                                  "msg": "export raised %r: the model still refers to the caller's own lists / dictionaries" % (e,)}],
                        "counters": dict(C), "nontrivial": True}
            C["rejected_at_export"] += 1
            return {"viol": [], "counters": dict(C), "nontrivial": False, "refused": repr(e)[:150]}
        t1 = re.sub(r'bioscrape_generated_model_\d+', "ID", open(p1).read())
        t2 = re.sub(r'bioscrape_generated_model_\d+', "ID", open(p2).read())
        C["double_writes"] += 1
        if t1 != t2:
            bad("double-write-differs", "two writes of the same model differ beyond the model id")
        try:
            if case["route"] == "ctor":
                R = Model(sbml_filename=p1)
            else:
                R = import_sbml(p1)
        except Exception as e:
            us = [q for q in sp["params"] if q.startswith("_")]
            if us and "Unspecified Parameters" in str(e) and all(("%s=nan" % q) in str(e) for q in us):
                # mechanism: the writer strips the leading underscore from the parameter id but keeps it in laws / annotations
                bad("leading-underscore-parameter", "model with parameters %r: the written file could not be read back: %s" % (us, str(e)[:160]))
                viol[-1]["key"] = "C12/leading-underscore-parameter"
            else:
                bad("reimport-refused", "the written file could not be read back: %r" % (e,))
            return {"viol": viol, "counters": dict(C), "nontrivial": False}
        C["roundtrips"] += 1
        # 1. species and initial values
        s0, s1 = M.get_species_dictionary(), R.get_species_dictionary()
        if set(s0) != set(s1):
            bad("species-set", "species %r became %r" % (sorted(s0), sorted(s1)))
            return {"viol": viol, "counters": dict(C), "nontrivial": False}
        for s in s0:
            if float(s0[s]) != float(s1[s]):
                bad("initial-value", "species %s: %r -> %r" % (s, s0[s], s1[s]))
        # 2. parameter values
        q0, q1 = M.get_parameter_dictionary(), R.get_parameter_dictionary()
        for p, v in q0.items():
            if p not in q1 or float(q1[p]) != float(v):
                bad("parameter-value", "parameter %s: %r -> %r" % (p, v, q1.get(p)))
        # 3. stoichiometry
        i0, i1 = M.get_species2index(), R.get_species2index()
        U0, U1, D0, D1 = M.py_get_update_array(), R.py_get_update_array(), M.py_get_delay_update_array(), R.py_get_delay_update_array()
        nrx = len(sp["reactions"])
        if U1.shape[1] != nrx:
            bad("reaction-count", "%d reactions -> %d" % (nrx, U1.shape[1]))
            return {"viol": viol, "counters": dict(C), "nontrivial": False}
        for s in s0:
            if not np.array_equal(U0[i0[s]], U1[i1[s]]):
                bad("immediate-stoichiometry", "species %s row %r -> %r" % (s, list(U0[i0[s]]), list(U1[i1[s]])))
            if not np.array_equal(D0[i0[s]], D1[i1[s]]):
                bad("delayed-stoichiometry", "species %s delayed row %r -> %r" % (s, list(D0[i0[s]]), list(D1[i1[s]])))
        # 4. rate laws in four forms
        P0, P1 = M.get_propensities(), R.get_propensities()
        v0, v1 = np.array(M.get_parameter_values(), dtype=float), np.array(R.get_parameter_values(), dtype=float)
        for st in case["states"]:
            x0 = specmod.state_vec(M, st)
            x1 = specmod.state_vec(R, st)
            for ri in range(nrx):
                r = sp["reactions"][ri]
                vals = []
                for (Pm, x, v) in ((P0[ri], x0, v0), (P1[ri], x1, v1)):
                    try:
                        vals.append((Pm.py_get_propensity(x.copy(), v.copy(), 0.0), Pm.py_get_volume_propensity(x.copy(), v.copy(), case["V"], 0.0),
                                     Pm.py_get_stochastic_propensity(x.copy(), v.copy(), 0.0), Pm.py_get_stochastic_volume_propensity(x.copy(), v.copy(), case["V"], 0.0)))
                    except Exception as e:
                        vals.append(("raised", repr(e)))
                C["rate_comparisons"] += 4
                a, b = vals
                if a[0] == "raised" or b[0] == "raised":
                    if a[0] != b[0]:
                        bad("rate-law:%s" % r["type"], "reaction %d: evaluation %r vs %r" % (ri, a, b))
                    continue
                for form, (u, w) in zip(ref.MODES, zip(a, b)):
                    if not (u == w or (math.isfinite(u) and math.isfinite(w) and abs(u - w) <= 1e-12 * max(abs(u), abs(w))) or (math.isnan(u) and math.isnan(w))):
                        bad("rate-law:%s" % r["type"], "reaction %d (%s %r) %s form at %s: %r -> %r" % (
                            ri, r["type"], r["fields"] if r["type"] != "general" else ref.to_str(r["ast"]), form, st, u, w))
                        break
        # 5. delays
        d0, d1 = M.get_delays(), R.get_delays()
        for ri in range(nrx):
            if type(d0[ri]).__name__ != type(d1[ri]).__name__:
                bad("delay-type", "reaction %d delay %s -> %s" % (ri, type(d0[ri]).__name__, type(d1[ri]).__name__))
                continue
            if type(d0[ri]).__name__ == "NoDelay":
                continue
            C["delay_comparisons"] += 1
            x0 = specmod.state_vec(M, case["states"][0]); x1 = specmod.state_vec(R, case["states"][0])
            brandom.py_seed_random(case["seed"] + 1)
            a = [d0[ri].py_get_delay(x0, v0) for _ in range(20)]
            brandom.py_seed_random(case["seed"] + 1)
            b = [d1[ri].py_get_delay(x1, v1) for _ in range(20)]
            if a != b:
                bad("delay-parameters:%s" % type(d0[ri]).__name__, "reaction %d: seeded delay draws %r... -> %r..." % (ri, a[:3], b[:3]))
        # 6. rules
        r0, r1 = M.get_rules(), R.get_rules()
        f0 = sorted((t[1]["equation"].split("=")[0].strip(), str(t[2])) for t in r0)
        f1 = sorted((t[1]["equation"].split("=")[0].strip(), str(t[2])) for t in r1)
        norm = lambda f: [(a, "repeated" if b in ("repeat", "repeated") else (repr(float(b)) if b not in ("start", "dt") else b)) for a, b in f]
        if norm(f0) != norm(f1):
            bad("rule-frequency", "rules (target, frequency) %r -> %r" % (f0, f1))
        if r0:
            I0, I1 = ModelCSimInterface(M), ModelCSimInterface(R)
            for st in case["states"][:5]:
                sched = sorted(set(float(t_[2]) for t_ in r0 if str(t_[2]) not in ("repeated", "repeat", "start", "dt")))
                for (tt, step) in [(0.0, True), (case["grid_time"], False), (0.3, True), (0.3, False)] + [(ts_, False) for ts_ in sched]:
                    a = specmod.state_vec(M, st); b = specmod.state_vec(R, st)
                    M.set_params(q0); R.set_params({k: q0[k] for k in q0})
                    I0.py_apply_repeated_rules(a, tt, step)
                    I1.py_apply_repeated_rules(b, tt, step)
                    C["rule_effect_comparisons"] += 1
                    da = {s: a[i0[s]] for s in s0}; db = {s: b[i1[s]] for s in s0}
                    pa = dict(M.get_parameter_dictionary()); pb = dict(R.get_parameter_dictionary())
                    nd_ = lambda u_, v_: not (u_ == v_ or (u_ != u_ and v_ != v_) or abs(u_ - v_) <= 1e-12 * max(abs(u_), abs(v_), 1e-300))      # NaN on one side only is a difference
                    if any(nd_(da[s], db[s]) for s in s0) or any(nd_(float(pa[k]), float(pb[k])) for k in pa if k in pb):
                        bad("rule-effect", "rules applied at t=%g step=%s to %s give %r -> %r" % (tt, step, st, da, db))
                        break
            M.set_params(q0)
        # 7. a second export of the SAME model object after its values were changed in place (set_params / set_species):
        #    the file must describe the model as it is now
        import random as _random
        rr = _random.Random(case["seed"] + 3)
        newp = {k: float("%.4g" % (float(v) * rr.uniform(1.2, 2.5))) for k, v in sp["params"].items()
                if k.startswith(("k_", "g_", "h_")) and rr.random() < 0.7}
        news = {s_: float(rr.randint(0, 9)) + 1.0 for s_ in list(s0)[:3] if not any(s_ == t_[1]["equation"].split("=")[0].strip() for t_ in r0)}
        if newp or news:
            if rr.random() < 0.5 and newp:
                for k, v in newp.items():
                    M.set_parameter(k, v)
            else:
                M.set_params(newp)
            M.set_species(news)
            p3 = os.path.join(tmp, "c.xml")
            try:
                M.write_sbml_model(p3, stochastic_model=case["stochastic"])
                R2 = Model(sbml_filename=p3) if case["route"] == "ctor" else import_sbml(p3)
            except Exception as e:
                bad("second-export-fails", "export / re-import after in-place value changes raised %r" % (e,))
                R2 = None
            if R2 is not None:
                C["second_exports_after_value_change"] += 1
                sa, sb = M.get_species_dictionary(), R2.get_species_dictionary()
                for s_ in sa:
                    if s_ not in sb or float(sa[s_]) != float(sb[s_]):
                        bad("stale-export:initial-value", "after set_species(%r) and a second export, species %s reads back as %r (model has %r)" % (news, s_, sb.get(s_), sa[s_]))
                        break
                qa, qb = M.get_parameter_dictionary(), R2.get_parameter_dictionary()
                for k, v in qa.items():
                    if k not in qb or float(qb[k]) != float(v):
                        bad("stale-export:parameter-value", "after changing %r in place and a second export, parameter %s reads back as %r (model has %r)" % (sorted(newp), k, qb.get(k), v))
                        break
                Pa, Pb = M.get_propensities(), R2.get_propensities()
                va, vb = np.array(M.get_parameter_values(), dtype=float), np.array(R2.get_parameter_values(), dtype=float)
                for st in case["states"][:2]:
                    xa, xb = specmod.state_vec(M, st), specmod.state_vec(R2, st)
                    for ri in range(min(len(Pa), len(Pb))):
                        try:
                            u, w = Pa[ri].py_get_propensity(xa.copy(), va.copy(), 0.0), Pb[ri].py_get_propensity(xb.copy(), vb.copy(), 0.0)
                        except Exception:
                            continue
                        if not (u == w or (math.isfinite(u) and math.isfinite(w) and abs(u - w) <= 1e-12 * max(abs(u), abs(w))) or (math.isnan(u) and math.isnan(w))):
                            bad("stale-export:rate-law", "second export: reaction %d rate at %s: %r -> %r" % (ri, st, u, w))
                            break
        types = set(r["type"] for r in sp["reactions"])
        nontrivial = len(types) >= 2 and (any(r.get("delay") for r in sp["reactions"]) or bool(sp["rules"]))
        return {"viol": viol, "counters": dict(C), "nontrivial": nontrivial}
    finally:
        shutil.rmtree(tmp, ignore_errors=True)


def aggregate(cases, records, tier, seed, run_more):
    refs = Counter(r["refused"] for r in records if r and r.get("refused"))
    return {"evidence": {"export_refusals": dict(refs.most_common(8))}}

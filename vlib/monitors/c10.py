"""C10 - delayed reactions deliver their delayed part exactly once, after the delay."""
import math
from collections import Counter
from vlib import util, ref, gen, stats, spec as specmod

PROPERTY = "C10"
RULE = ("networks whose reaction r produces a counter N_r immediately and D_r in its delayed part (plus real delayed reactants/products), "
        "delay families fixed / gaussian / gamma with delays from 0.05 dt to beyond the horizon, queues built by the harness with slot width "
        "equal / finer / coarser than the grid and by py_simulate_model(delay=True), 50-400 grid points, several seeds; exact: 0<=D_r<=N_r on "
        "every row, x-x0 == N S + D Sd, drained final queue == N_r(T)-D_r(T), fixed-delay delivery window N(t_{j-m-1}) <= D(t_j) <= N(t_{j-m}), "
        "N==D for simulators without delay support; statistical (exact tails): Delay.py_get_delay draws vs N(mean,std)/Gamma(k,theta) by DKW, "
        "in-flight count of a zero-order producer vs its Poisson law, zero-delay delay-SSA vs the CME; "
        "non-trivial = run with >=5 firings of a delayed reaction, some delivered and some still queued; distinct by network x delay spec x simulator x seed")
ASSUMPTIONS = ["grid steps are dyadic for the exact timing windows", "reference CME / Poisson laws from vlib/ref.py and scipy.stats",
               "DKW bound at alpha=1e-12 and exact Poisson tails at 1e-12, confirmed by a second independent stage"]
RUN_OPTS = {"batch_size": 4, "timeout_per_case": 120.0, "base_timeout": 60.0}
MINIMA = {"*": {"trajectories": 300, "rows_checked": 20000, "nontrivial_trajectories": 60, "queue_drains": 200, "fixed_delay_windows_checked": 2000, "continued_runs": 100,
                "delay_draws": 200000, "inflight_runs": 20000, "zero_delay_runs": 50000}}


SANITIZE_TIERS = ("thorough",)


def sanitize_subset(cases):
    return [c for c in cases if c["kind"] in ("exact", "window")][:50]


def generate(tier, seed):
    rnd = util.rng(PROPERTY, tier, seed, "cases")
    cases = []
    nnet = 30 if tier == "quick" else 400
    nseeds = 12 if tier == "quick" else 60
    for i in range(nnet):
        massonly = True
        T = rnd.choice([2.0, 4.0, 8.0])
        n = rnd.choice([65, 129, 257]) if tier == "quick" else rnd.choice([65, 129, 257, 385])
        dt = T / (n - 1)
        sp = gen.bounded_network(rnd, T, counters=True, delays=True, nonmass_consumers=False, cap=120.0, delay_scale=T / 8.0,
                                 types=["massaction"], delayed_reactants=False)
        if not any(r.get("delay") for r in sp["reactions"]):
            continue
        if i % 3 == 0:
            # real delayed reactants: drawn from an abundant species that enters no rate law, so the network stays in the
            # non-negative domain (a delayed reactant is consumed at delivery time without any availability check)
            sp["species"].append("Fuel")
            sp["x0"]["Fuel"] = 5000
            for r in sp["reactions"]:
                if r.get("delay") and rnd.random() < 0.7:
                    r["delay"]["reactants"] = ["Fuel"] * rnd.choice([1, 1, 2])
        if i % 3 == 1:
            # the model is assembled incrementally and one create_reaction call with a delay is refused on the way
            # (a delay parameter named like a species / a delay dictionary without its key / an unknown delay type)
            if len(sp["reactions"]) >= 2:
                sp["init_after"] = rnd.randint(1, len(sp["reactions"]) - 1)      # initialised once before the last reactions are added
            sp["poison"] = [[rnd.randint(0, len(sp["reactions"]) - 1), rnd.choice(["delay_param_species_name", "new_species_bad_delay", "unknown_delay_type", "hill_delay"])]]
        cases.append({"kind": "exact", "spec": sp, "grid": {"t0": 0.0, "dt": dt, "n": n}, "slot": rnd.choice(["equal", "equal", "finer", "coarser"]),
                      "seeds": [util.seed64(PROPERTY, tier, seed, "e%d_%d" % (i, j)) % (2 ** 31) for j in range(nseeds)], "V": gen.nice(rnd, 0.4, 3)})
    # fixed-delay timing windows
    for i in range(12 if tier == "quick" else 150):
        n = rnd.choice([65, 129])
        dt = 2.0 ** rnd.randint(-5, -3)
        kind = ["multiple", "near", "fraction", "beyond", "tiny", "near", "multiple", "near"][i % 8]
        if kind == "near":
            # delays within a few steps of the queue's horizon (the queue built by py_simulate_model has one slot per grid point):
            # the clamp to the last slot is exercised from both sides
            m = n + rnd.choice([-3, -2, -1, 0, 0, 1, 2])
            f = rnd.choice([0.0, 0.0, 0.25, 0.3, 0.7])
            d = (m + f) * dt
            kind = "multiple" if f == 0.0 else "fraction"
        elif kind == "multiple":
            m = rnd.randint(1, 12)
            d = m * dt
        elif kind == "fraction":
            m = rnd.randint(0, 10)
            d = (m + rnd.choice([0.25, 0.3, 0.7, 0.8])) * dt
        elif kind == "tiny":
            m = 0
            d = dt * rnd.choice([0.05, 0.1, 0.3])
        else:
            m = n + 5
            d = (n + 5.25) * dt
        sp = {"species": ["G", "X"], "x0": {"G": rnd.randint(1, 3), "X": 0}, "params": {"tau": d},
              "reactions": [{"type": "massaction", "reactants": ["G"], "products": ["G"], "fields": {"k": gen.nice(rnd, 1.0, 8.0)},
                             "delay": {"type": "fixed", "reactants": [], "products": ["X"], "params": {"delay": "tau"}}},
                            {"type": "massaction", "reactants": ["X"], "products": [], "fields": {"k": gen.nice(rnd, 0.1, 1.0)}}], "rules": []}
        gen.add_counters(sp)
        cases.append({"kind": "window", "spec": sp, "grid": {"t0": 0.0, "dt": dt, "n": n}, "m": m, "wkind": kind,
                      "seeds": [util.seed64(PROPERTY, tier, seed, "w%d_%d" % (i, j)) % (2 ** 31) for j in range(nseeds)]})
    # delay laws
    for i in range(8 if tier == "quick" else 60):
        fam = ["gaussian", "gamma"][i % 2]
        if fam == "gaussian":
            pr = {"mean": float("%.3g" % rnd.uniform(-1, 6)), "std": gen.nice(rnd, 0.05, 3)}
        else:
            pr = {"k": float(rnd.choice([1, 2, 3, 5, 8])) if rnd.random() < 0.6 else float("%.3g" % rnd.uniform(1, 8)), "theta": gen.nice(rnd, 0.05, 4)}
            if (i // 2) % 2 == 0:
                # the edge of the range: shape exactly 1 (an exponential law), with a scale away from 1
                pr["k"] = 1.0
                pr["theta"] = gen.nice(rnd, 0.05, 0.5) if (i // 4) % 2 == 0 else gen.nice(rnd, 2, 6)
        cases.append({"kind": "law", "family": fam, "params": pr, "n": 100000 if tier == "quick" else 1000000,
                      "seed": util.seed64(PROPERTY, tier, seed, "law%d" % i), "stage": 1})
    # in-flight law
    for i in range(6 if tier == "quick" else 45):
        fam = ["fixed", "gaussian", "gamma"][i % 3]
        dt = 2.0 ** rnd.randint(-4, -2)
        n = 65
        T = dt * (n - 1)
        if fam == "fixed":
            pr = {"delay": float("%.3g" % (T * rnd.uniform(0.02, 0.6)))}
        elif fam == "gaussian":
            pr = {"mean": float("%.3g" % (T * rnd.uniform(-0.05, 0.4))), "std": float("%.3g" % (T * rnd.uniform(0.02, 0.3)))}
        else:
            pr = {"k": float(rnd.choice([1, 2, 4])), "theta": float("%.3g" % (T * rnd.uniform(0.02, 0.15)))}
        cases.append({"kind": "inflight", "family": fam, "params": pr, "k": gen.nice(rnd, 0.5, 4), "grid": {"t0": 0.0, "dt": dt, "n": n},
                      "runs": 4000 if tier == "quick" else 40000, "seed": util.seed64(PROPERTY, tier, seed, "inf%d" % i), "stage": 1})
    # zero delay == ordinary SSA law
    from vlib.monitors import c05
    j = 0
    while j < (4 if tier == "quick" else 30):
        name = c05.TEMPLATES[j % len(c05.TEMPLATES)]
        sp, finite, sims, cap = c05.template(rnd, name)
        if "ssa" not in sims:
            j += 1
            continue
        for r_i, r in enumerate(sp["reactions"]):
            if r_i % 2 == 0:
                r["delay"] = {"type": "fixed", "reactants": [], "products": [], "params": {"delay": 0.0}}
                # move one product into the delayed part: with zero delay the law must not change
                if r["products"]:
                    r["delay"]["products"] = [r["products"][-1]]
                    r["products"] = r["products"][:-1]
        x0 = {s: float(v) for s, v in sp["x0"].items()}
        lam = sum(ref.rates(sp, x0, sp["params"], 1.0, "stoch", 0.0))
        dtz = float("%.3g" % (rnd.uniform(0.3, 1.2) / max(lam, 1e-3)))
        tp = [dtz * q for q in range(rnd.randint(3, 6))]
        if cap == "poisson":
            kp = ref.pval(sp["reactions"][0]["fields"]["k"], {})
            mm = sp["x0"]["A"] + kp * tp[-1]
            cap = int(mm + 12 * math.sqrt(mm) + 12)
        cases.append({"kind": "zerodelay", "template": name, "spec": sp, "tp": tp, "cap": cap, "runs": 50000 if tier == "quick" else 400000,
                      "seed": util.seed64(PROPERTY, tier, seed, "zd%d" % j), "stage": 1})
        j += 1
    return cases


def drain(queue, nrx, slots):
    import numpy as np
    pend = np.zeros(nrx)
    arr = np.zeros(nrx)
    for _ in range(slots + 1):
        queue.py_get_next_reactions(arr)
        pend += arr
        queue.py_advance_time()
    return pend


def run_case(case):
    return globals()["run_" + case["kind"]](case)


def sim_key(sim):
    return "delay-volume" if "volume" in sim else "delay-ssa"


def run_exact(case):
    import numpy as np
    from bioscrape.types import Volume
    from bioscrape.simulator import (ModelCSimInterface, SSASimulator, VolumeSSASimulator, DelaySSASimulator, DelayVolumeSSASimulator,
                                     ArrayDelayQueue, py_simulate_model)
    import bioscrape.random as brandom
    C = Counter()
    viol = util.ViolList()
    sp = case["spec"]
    # incrementally assembled models are handed to py_simulate_model as they are (not initialised yet): the first simulation
    # after the last edit is the delay-aware one
    M = specmod.build_model(sp, "incremental", initialize=False) if sp.get("poison") else specmod.build_model(sp, "ctor")
    if sp.get("poison"):
        C["models_built_after_refused_calls"] += 1
    species = M.get_species_list()
    idx = M.get_species2index()
    nrx = len(sp["reactions"])
    if len(M.get_reactions()) != nrx:
        return {"viol": [{"key": "C10/reaction-list:delay-ssa", "msg": "the model holds %d reactions after %d were added (a refused call was made on the way)" % (len(M.get_reactions()), nrx)}],
                "counters": dict(C), "nontrivial": True}
    S, Sd = ref.stoich(sp)
    Smat = np.array([[S[r].get(s, 0) for r in range(nrx)] for s in species], dtype=float)
    Sdmat = np.array([[Sd[r].get(s, 0) for r in range(nrx)] for s in species], dtype=float)
    g = case["grid"]
    tp = g["t0"] + g["dt"] * np.arange(g["n"])
    x0 = np.array([float(sp["x0"].get(s, 0)) for s in species])
    cnt = sp["counters"]
    has_delay = [bool(sp["reactions"][r].get("delay")) for r in range(nrx)]
    nontrivial_n = 0
    slotdt = {"equal": g["dt"], "finer": g["dt"] / 4, "coarser": g["dt"] * 2}[case["slot"]]
    nslots = {"equal": g["n"], "finer": 4 * g["n"], "coarser": g["n"] // 2 + 2}[case["slot"]]

    def bad(key, msg, sim, seed):
        if len(viol) < 5:
            viol.append({"key": "C10/%s:%s" % (key, sim_key(sim) if sim.startswith(("delay", "psm")) else "no-delay-simulator"), "msg": "%s seed=%d: %s" % (sim, seed, msg)})

    for sim in (["psm_delay"] if sp.get("poison") else []) + ["delay", "delay_continued", "psm_delay", "delay_volume", "psm_delay_volume", "ssa", "volume"]:
        for seed in case["seeds"] if sim in ("delay", "delay_volume") else case["seeds"][:4]:
            brandom.py_seed_random(seed)
            queue = None
            slots = nslots
            Xc = None
            if sim == "delay_continued":
                # a run continued in a second call from the state, time and queue the first call returned: the queue has already
                # ticked when it is handed back to the simulator; every firing must still be accounted for exactly once
                kcut = 2 + seed % max(1, len(tp) - 4)
                itf = ModelCSimInterface(M)
                itf.py_set_dt(g["dt"])
                q = ArrayDelayQueue.setup_queue(nrx, nslots, slotdt)
                r1 = DelaySSASimulator().py_delay_simulate(itf, q, tp[:kcut + 1].copy())
                X1 = np.array(r1.py_get_result())
                itf.py_set_initial_state(X1[-1].copy())
                itf.py_set_initial_time(float(tp[kcut]))
                res = DelaySSASimulator().py_delay_simulate(itf, r1.py_get_delay_queue(), tp[kcut:].copy())
                Xc = np.vstack([X1, np.array(res.py_get_result())[1:]])
                queue = res.py_get_delay_queue()
                C["continued_runs"] += 1
                # a model interface writes its initial state through to the model: put the model's own values back
                M.set_species({s_: float(sp["x0"].get(s_, 0)) for s_ in species})
            elif sim == "delay":
                itf = ModelCSimInterface(M)
                itf.py_set_dt(g["dt"])
                q = ArrayDelayQueue.setup_queue(nrx, nslots, slotdt)
                res = DelaySSASimulator().py_delay_simulate(itf, q, tp.copy())
                queue = res.py_get_delay_queue()
            elif sim == "psm_delay":
                res = py_simulate_model(tp.copy(), Model=M, stochastic=True, delay=True, return_dataframe=False)
                if not hasattr(res, "py_get_delay_queue"):
                    bad("delay-request-ignored", "py_simulate_model(delay=True) on a model with delayed reactions returned a %s (no delay queue: the delayed parts were not queued)" % type(res).__name__, sim, seed)
                    continue
                queue = res.py_get_delay_queue()
                slots = g["n"]
            elif sim == "delay_volume":
                itf = ModelCSimInterface(M)
                itf.py_set_dt(g["dt"])
                q = ArrayDelayQueue.setup_queue(nrx, g["n"], g["dt"])
                slots = g["n"]
                v = Volume()
                v.py_set_volume(case["V"])
                res = DelayVolumeSSASimulator().py_delay_volume_simulate(itf, q, v, tp.copy())
                queue = res.py_get_delay_queue()
            elif sim == "psm_delay_volume":
                res = py_simulate_model(tp.copy(), Model=M, stochastic=True, delay=True, volume=case["V"], return_dataframe=False)
                queue = res.py_get_delay_queue()
                slots = g["n"]
            elif sim == "ssa":
                itf = ModelCSimInterface(M)
                res = SSASimulator().py_simulate(itf, tp.copy())
            else:
                itf = ModelCSimInterface(M)
                itf.py_set_dt(g["dt"])
                v = Volume()
                v.py_set_volume(case["V"])
                res = VolumeSSASimulator().py_volume_simulate(itf, v, tp.copy())
            X = np.array(res.py_get_result()) if Xc is None else Xc
            C["trajectories"] += 1
            C["rows_checked"] += len(tp)
            N = np.zeros((len(tp), nrx))
            D = np.zeros((len(tp), nrx))
            for r in range(nrx):
                e = cnt[str(r)]
                N[:, r] = X[:, idx[e["N"]]]
                D[:, r] = X[:, idx[e["D"]]] if "D" in e else N[:, r]
            if (np.diff(N, axis=0) < 0).any() or (np.diff(D, axis=0) < 0).any() or (N != np.round(N)).any() or (D != np.round(D)).any():
                bad("counter-not-monotone", "a firing / delivery counter decreased or is not an integer", sim, seed)
                continue
            if (D > N).any():
                i = int(np.argmax((D > N).any(axis=1)))
                bad("delivery-without-firing", "row %d: deliveries %r exceed firings %r" % (i, list(D[i]), list(N[i])), sim, seed)
            expX = N @ Smat.T + D @ Sdmat.T
            if not np.array_equal(expX, X - x0):
                i = int(np.argmax(np.any(expX != X - x0, axis=1)))
                bad("state-not-accounted", "row %d: x-x0=%r but counters imply %r" % (i, list((X - x0)[i]), list(expX[i])), sim, seed)
            if queue is None:
                if not np.array_equal(N, D):
                    bad("delayed-part-not-applied-at-firing", "immediate and delayed counters differ in a simulator without delay support", sim, seed)
                continue
            pend = drain(queue, nrx, slots)
            C["queue_drains"] += 1
            want = N[-1] - D[-1]
            if not np.array_equal(pend, want):
                kind = "lost" if (pend < want).any() else "extra"
                bad("queue-accounting-%s" % kind, "firings-deliveries at the last row = %r but the returned queue holds %r" % (list(want), list(pend)), sim, seed)
            dl = [r for r in range(nrx) if has_delay[r]]
            if any(N[-1, r] >= 5 and 0 < D[-1, r] < N[-1, r] for r in dl):
                nontrivial_n += 1
    return {"viol": viol, "counters": dict(C, nontrivial_trajectories=nontrivial_n), "nontrivial": nontrivial_n > 0, "nontrivial_n": nontrivial_n}


def run_window(case):
    import numpy as np
    from bioscrape.simulator import ModelCSimInterface, DelaySSASimulator, ArrayDelayQueue, py_simulate_model
    import bioscrape.random as brandom
    C = Counter()
    viol = util.ViolList()
    sp = case["spec"]
    M = specmod.build_model(sp, "ctor")
    idx = M.get_species2index()
    g = case["grid"]
    tp = g["t0"] + g["dt"] * np.arange(g["n"])
    m = case["m"]
    cols = g["n"]                 # slots of the queue (harness-built and py_simulate_model's alike)
    # a firing first visible at row r is queued at slot offset o in {m-1, m} (d = m dt) or {m-1, m, m+1} (d = (m+f) dt), clamped to
    # [0, cols-1], and becomes visible at row r + o + 1
    o_min = min(max(m - 1, 0), cols - 1)
    o_max = min(m if case["wkind"] == "multiple" else m + 1, cols - 1)
    lo_shift = o_max + 1
    hi_shift = o_min + 1
    nontrivial_n = 0
    for sim in ("delay", "psm_delay", "delay_continued"):
        for seed in case["seeds"]:
            brandom.py_seed_random(seed)
            late = 0
            if sim == "delay":
                itf = ModelCSimInterface(M)
                itf.py_set_dt(g["dt"])
                q = ArrayDelayQueue.setup_queue(2, g["n"], g["dt"])
                res = DelaySSASimulator().py_delay_simulate(itf, q, tp.copy())
                X = np.array(res.py_get_result())
            elif sim == "delay_continued":
                if case["wkind"] == "beyond":
                    continue
                # second call continues from the state, time and (already ticked) queue of the first.  Handing the queue back
                # re-bases its clock one step later (measured on the unchanged tree: at most one extra row of lateness, never
                # earlier, nothing lost), hence the window is one row wider on the late side
                kcut = 2 + seed % (len(tp) - 4)
                itf = ModelCSimInterface(M)
                itf.py_set_dt(g["dt"])
                q = ArrayDelayQueue.setup_queue(2, g["n"], g["dt"])
                r1 = DelaySSASimulator().py_delay_simulate(itf, q, tp[:kcut + 1].copy())
                X1 = np.array(r1.py_get_result())
                itf.py_set_initial_state(X1[-1].copy())
                itf.py_set_initial_time(float(tp[kcut]))
                res = DelaySSASimulator().py_delay_simulate(itf, r1.py_get_delay_queue(), tp[kcut:].copy())
                X = np.vstack([X1, np.array(res.py_get_result())[1:]])
                late = 1
                C["continued_runs"] += 1
                M.set_species({s_: float(sp["x0"].get(s_, 0)) for s_ in M.get_species_list()})
            else:
                res = py_simulate_model(tp.copy(), Model=M, stochastic=True, delay=True, return_dataframe=False)
                X = np.array(res.py_get_result())
            N = X[:, idx["N0"]]
            D = X[:, idx["D0"]]
            C["trajectories"] += 1
            C["rows_checked"] += len(tp)
            if case["wkind"] == "beyond":
                if D.any():
                    viol.append({"key": "C10/delivered-before-delay:delay-ssa", "msg": "%s seed=%d: delay beyond the horizon but %r deliveries reported" % (sim, seed, D[-1])})
                pend = drain(res.py_get_delay_queue(), 2, g["n"])
                C["queue_drains"] += 1
                if pend[0] != N[-1]:
                    viol.append({"key": "C10/queue-accounting-lost:delay-ssa", "msg": "%s seed=%d: %r firings, queue holds %r" % (sim, seed, N[-1], pend[0])})
                continue
            for j in range(len(tp)):
                lo = N[j - lo_shift - late] if j - lo_shift - late >= 0 else 0.0
                hi = N[j - hi_shift] if j - hi_shift >= 0 else 0.0
                C["fixed_delay_windows_checked"] += 1
                if not (lo <= D[j] <= hi):
                    viol.append({"key": "C10/%s:delay-ssa" % ("delivered-before-delay" if D[j] > hi else "delivered-late-or-lost"),
                                 "msg": "%s seed=%d fixed delay %g (=%g dt): row %d has %r deliveries, window [N(t_%d)=%r, N(t_%d)=%r]" % (
                                     sim, seed, sp["params"]["tau"], sp["params"]["tau"] / g["dt"], j, D[j], j - lo_shift, lo, j - hi_shift, hi)})
                    break
            if N[-1] >= 5 and 0 < D[-1] < N[-1]:
                nontrivial_n += 1
            if len(viol) > 3:
                break
    return {"viol": viol[:4], "counters": dict(C, nontrivial_trajectories=nontrivial_n), "nontrivial": nontrivial_n > 0, "nontrivial_n": nontrivial_n}


def _delay_model(fam, pr):
    sp = {"species": ["X"], "x0": {"X": 0}, "params": {}, "rules": [],
          "reactions": [{"type": "massaction", "reactants": [], "products": [], "fields": {"k": 1.0},
                         "delay": {"type": fam, "reactants": [], "products": ["X"], "params": dict(pr)}}]}
    return sp


def run_law(case):
    import numpy as np
    from scipy import stats as st
    import bioscrape.random as brandom
    sp = _delay_model(case["family"], case["params"])
    M = specmod.build_model(sp, "ctor")
    d = M.get_delays()[0]
    x = M.get_species_array().copy()
    p = np.array(M.get_parameter_values(), dtype=float).copy()
    brandom.py_seed_random(case["seed"] % (2 ** 63) or 1)
    n = case["n"]
    draws = np.array([d.py_get_delay(x, p) for _ in range(n)])
    pr = case["params"]
    if case["family"] == "gaussian":
        cdf = lambda v: st.norm.cdf(v, pr["mean"], pr["std"])
    else:
        cdf = lambda v: st.gamma.cdf(v, pr["k"], scale=pr["theta"])
    D, eps, ok = stats.dkw_test(draws, cdf)
    return {"viol": [], "counters": {"delay_draws": n}, "nontrivial": True,
            "stat": {"ok": ok, "D": D, "eps": eps, "what": "Delay.py_get_delay %s %r: sup|F_n-F|=%.4g, DKW bound %.4g (n=%d)" % (case["family"], pr, D, eps, n),
                     "key": "C10/delay-law:%s" % case["family"]}}


def inflight_mean(fam, pr, k, T, dt):
    """k * E[ 1{tau>0} * min(T, max(dt, tau + dt/2)) ] (derivation in DESIGN.md, C10)"""
    from scipy import stats as st
    from scipy.integrate import quad
    g = lambda tau: min(T, max(dt, tau + dt / 2.0))
    if fam == "fixed":
        tau = pr["delay"]
        return k * (g(tau) if tau > 0 else 0.0)
    if fam == "gaussian":
        dist = st.norm(pr["mean"], pr["std"])
    else:
        dist = st.gamma(pr["k"], scale=pr["theta"])
    # piecewise: tau in (0, dt/2] -> dt ; (dt/2, T-dt/2) -> tau+dt/2 ; beyond -> T
    a = dt * (dist.cdf(dt / 2.0) - dist.cdf(0.0))
    b, _ = quad(lambda u: (u + dt / 2.0) * dist.pdf(u), dt / 2.0, T - dt / 2.0, epsabs=1e-12, epsrel=1e-12, limit=400)
    c = T * dist.sf(T - dt / 2.0)
    return k * (a + b + c)


def run_inflight(case):
    import numpy as np
    from bioscrape.simulator import ModelCSimInterface, DelaySSASimulator, ArrayDelayQueue
    import bioscrape.random as brandom
    g = case["grid"]
    tp = g["t0"] + g["dt"] * np.arange(g["n"])
    T = tp[-1]
    sp = _delay_model(case["family"], case["params"])
    sp["reactions"][0]["fields"]["k"] = case["k"]
    gen.add_counters(sp)
    M = specmod.build_model(sp, "ctor")
    idx = M.get_species2index()
    itf = ModelCSimInterface(M)
    itf.py_set_dt(g["dt"])
    seeds = util.splitmix64(case["seed"])
    tot = 0
    S = DelaySSASimulator()
    for i in range(case["runs"]):
        if i % 200 == 0:
            brandom.py_seed_random(next(seeds) or 1)
        q = ArrayDelayQueue.setup_queue(1, g["n"], g["dt"])
        X = S.py_delay_simulate(itf, q, tp).py_get_result()
        tot += X[-1, idx["N0"]] - X[-1, idx["D0"]]
    mean = inflight_mean(case["family"], case["params"], case["k"], T, g["dt"])
    tail, ok = stats.poisson_mean_test(tot, case["runs"], mean)
    return {"viol": [], "counters": {"inflight_runs": case["runs"]}, "nontrivial": True,
            "stat": {"ok": ok, "tail": tail, "key": "C10/in-flight-law:%s" % case["family"],
                     "what": "in-flight count at T=%g over %d runs: total %d, Poisson mean %.2f (delay %s %r, k=%g, dt=%g): tail %.3g" % (
                         T, case["runs"], tot, case["runs"] * mean, case["family"], case["params"], case["k"], g["dt"], tail)}}


def run_zerodelay(case):
    import numpy as np
    from vlib import cme
    from bioscrape.simulator import ModelCSimInterface, DelaySSASimulator, ArrayDelayQueue
    import bioscrape.random as brandom
    sp = case["spec"]
    tp = np.array(case["tp"], dtype=float)
    M = specmod.build_model(sp, "ctor")
    cols = M.get_species_list()
    x0 = {s: int(v) for s, v in sp["x0"].items()}
    refd = cme.build_reference(sp, x0, tp, "stoch", 1.0, cap=case["cap"])
    itf = ModelCSimInterface(M)
    itf.py_set_dt(tp[1] - tp[0])
    n = case["runs"]
    X = np.empty((n, len(tp), len(cols)))
    seeds = util.splitmix64(case["seed"] + 31 * case["stage"])
    S = DelaySSASimulator()
    nrx = len(sp["reactions"])
    for i in range(n):
        if i % 500 == 0:
            brandom.py_seed_random(next(seeds) or 1)
        q = ArrayDelayQueue.setup_queue(nrx, len(tp), tp[1] - tp[0])
        X[i] = S.py_delay_simulate(itf, q, tp).py_get_result()
    idx = cme.state_indices(X, cols, refd)
    r = cme.test_law(idx, refd, tp)
    return {"viol": [], "counters": {"zero_delay_runs": n, "cells_tested": r["cells"]}, "nontrivial": cme.nontrivial_law(refd),
            "stat": {"ok": not r["rejected"], "key": "C10/zero-delay-law:%s" % case["template"], "tail": r["min_p"],
                     "what": "zero-delay DelaySSASimulator vs CME (%s, %d runs, %d cells): min tail %.3g, rejections %r" % (
                         case["template"], n, r["cells"], r["min_p"], r["rejected"][:2])}}


def aggregate(cases, records, tier, seed, run_more):
    viol, ev = [], {"statistical": [], "stage1_unconfirmed": 0}
    retry = []
    for c, r in zip(cases, records):
        if not r or "stat" not in r:
            continue
        ev["statistical"].append(r["stat"]["what"])
        if not r["stat"]["ok"]:
            c2 = dict(c)
            c2["stage"] = 2
            c2["seed"] = c["seed"] + 104729
            for k in ("n", "runs"):
                if k in c2:
                    c2[k] = c2[k] * 4
            retry.append((c, r, c2))
    if retry:
        recs2 = run_more([c2 for _, _, c2 in retry])
        for (c, r1, c2), r2 in zip(retry, recs2):
            if r2 and "stat" in r2 and not r2["stat"]["ok"]:
                viol.append({"key": r1["stat"]["key"], "msg": "rejected at both stages: " + r1["stat"]["what"] + " ; stage 2: " + r2["stat"]["what"], "case": c2})
            else:
                ev["stage1_unconfirmed"] += 1
    return {"viol": viol, "evidence": ev}

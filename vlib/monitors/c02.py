"""C02 - rate and rule expressions evaluate to their mathematical meaning."""
import math, random
from collections import Counter
from vlib import util, ref

PROPERTY = "C02"
RULE = ("random expression trees (depth <= 4 quick / 5 thorough) over + - * / ^ neg exp log abs Heaviside min max numbers species "
        "parameters t volume, printed with syntactic variety (^ or **, heaviside/Heaviside, abs/Abs, min/Min, ln/log, | in names, "
        "leading-underscore parameters, int/decimal/exponent literals), identifiers including the single letters C O Q N I E S used as "
        "species and as parameters; evaluated through parse_expression (py_evaluate, py_volume_evaluate), Model.parse_general_expression, "
        "a general propensity and an assignment rule at 6-10 points each; a point is used only if the reference evaluation is finite, "
        "away from Heaviside jumps and well conditioned; negative cases (unknown names, sympy-colliding names, unsupported functions, "
        "relations) must raise while the term/model is built; non-trivial = >=3 operator nodes, >=2 distinct identifiers, value not 0/1; "
        "distinct by canonical tree")
ASSUMPTIONS = ["the harness's AST evaluator (Python floats / math) is the written formula's meaning",
               "ill-conditioned points (re-evaluation with 1e-13 leaf perturbations moves the value by > 1e-9) are skipped, not passed"]
RUN_OPTS = {"batch_size": 40, "timeout_per_case": 30.0}
MINIMA = {"*": {"accepted_evaluations": 3000, "negative_cases": 40, "min_operator_count": 30, "min_single_letter_count": 10}}

SPECIES = ["A", "B", "x_1"]
PARAMS = ["k2", "deg_rate", "kcat"]
SINGLE = ["C", "O", "Q", "N", "I", "E", "S"]
OPS = ["+", "-", "*", "/", "^", "neg", "exp", "log", "abs", "step", "min", "max"]


def gen_tree(rnd, depth, sp, par):
    if depth <= 0 or rnd.random() < 0.18:
        u = rnd.random()
        if u < 0.3:
            return ["sp", rnd.choice(sp)]
        if u < 0.6:
            return ["par", rnd.choice(par)]
        if u < 0.68:
            return ["t"]
        if u < 0.76:
            return ["vol"]
        v = rnd.choice([rnd.randint(0, 9), rnd.choice([0.5, 0.25, 1.5, 2.0, 3.0]), float("%.3g" % rnd.uniform(0.01, 20)), float("%.2e" % rnd.uniform(1e-3, 1e3))])
        return ["num", float(v)]
    op = rnd.choice(OPS)
    if op in ("neg", "exp", "log", "abs", "step"):
        return [op, gen_tree(rnd, depth - 1, sp, par)]
    if op == "^":
        # exponents: small numbers mostly, sometimes an expression
        e = ["num", float(rnd.choice([2, 3, 0.5, 1.5, -1, 2.5, 4]))] if rnd.random() < 0.7 else gen_tree(rnd, min(depth - 1, 1), sp, par)
        if e[0] == "num" and abs(e[1]) > 12:
            # x^759 is outside the finite domain at every evaluation point (and sends sympy into very long computations)
            e = ["num", float("%.3g" % (e[1] % 7))]
        return ["^", gen_tree(rnd, depth - 1, sp, par), e]
    return [op, gen_tree(rnd, depth - 1, sp, par), gen_tree(rnd, depth - 1, sp, par)]


def rand_style(rnd, par):
    return {"pow": rnd.choice(["^", "**"]), "step": rnd.choice(["heaviside", "Heaviside"]), "abs": rnd.choice(["abs", "Abs"]),
            "log": rnd.choice(["log", "ln"]), "cap": rnd.random() < 0.5, "capmin": rnd.random() < 0.5, "intlit": rnd.random() < 0.7,
            "underscore": [p for p in par if p == "kcat" and rnd.random() < 0.8]}


def nops(t):
    return sum(1 for n in ref.walk(t) if n[0] not in ("num", "sp", "par", "t", "vol"))


def decorate(rnd, s):
    if rnd.random() < 0.3:
        s = "  " + s.replace(" + ", "+").replace(" * ", " *  ") + " "
    if rnd.random() < 0.3:
        s = s.replace("x_1", "x|1")
    if rnd.random() < 0.2:
        s = "(" + s + ")"
    return s


def gen_case(rnd, depth):
    letters = rnd.sample(SINGLE, rnd.randint(1, 4))
    sp = SPECIES + [l for i, l in enumerate(letters) if i % 2 == 0]
    par = PARAMS + [l for i, l in enumerate(letters) if i % 2 == 1]
    tree = gen_tree(rnd, depth, sp, par)
    st = rand_style(rnd, par)
    text = decorate(rnd, ref.to_str(tree, st))
    pts = []
    for _ in range(6 if depth <= 4 else 10):
        x = {s: (float(rnd.randint(0, 20)) if rnd.random() < 0.5 else float("%.6g" % rnd.uniform(0, 20))) for s in sp}
        p = {q: float("%.6g" % rnd.uniform(0.05, 20)) for q in par}
        pts.append({"x": x, "p": p, "t": float("%.4g" % rnd.uniform(0, 50)), "V": float("%.4g" % rnd.uniform(0.1, 10))})
    return {"kind": "eval", "tree": tree, "text": text, "species": sp, "params": par, "points": pts}


NEG = [("unknown", "k2*A + zz_unknown"), ("unknown", "A*B/(1+mystery)"), ("sympy-name", "beta*A"), ("sympy-name", "gamma*A + B"),
       ("sympy-name", "zeta*B"), ("sympy-name", "lambda*A"), ("function", "sin(A)"), ("function", "k2*tanh(B)"), ("function", "cos(A)+1"),
       ("function", "sqrt(A) + floor(B)"), ("relation", "A > B"), ("relation", "k2*(A >= 2)"), ("function", "erf(A)"), ("function", "sign(A)*B"),
       ("function", "factorial(A)"), ("syntax", "A +* B"), ("syntax", "k2*(A"), ("function", "Piecewise((A, A>1), (B, True))"),
       # single letters that symbolic algebra reads as constants when nobody has declared them
       ("single-letter", "E*A + k2"), ("single-letter", "I^2*A + B"), ("single-letter", "k2*A + S*N"), ("single-letter", "O*Q + B"), ("single-letter", "A^E")]


def generate(tier, seed):
    rnd = util.rng(PROPERTY, tier, seed, "cases")
    depth = 4 if tier == "quick" else 5
    n = 1500 if tier == "quick" else 40000
    cases = [gen_case(rnd, rnd.randint(2, depth)) for _ in range(n)]
    for rep in range(4 if tier == "quick" else 12):
        for kind, text in NEG:
            cases.append({"kind": "neg", "neg": kind, "text": text, "species": SPECIES, "params": PARAMS, "as_param": rep % 2 == 1})
    return cases


def ev_checked(node, x, p, t, V, jitter=None):
    """reference evaluation; raises ref.Undefined near Heaviside jumps / out of range"""
    k = node[0]
    if k in ("num", "sp", "par", "t", "vol"):
        v = ref.ev(node, x, p, t, V)
        if jitter is not None and v != 0:
            v = v * (1 + jitter.choice((-1e-13, 1e-13)))
        return v
    args = [ev_checked(c, x, p, t, V, jitter) for c in node[1:]]
    if k == "step":
        if abs(args[0]) < 1e-6:
            raise ref.Undefined("near heaviside jump")
        return 1.0 if args[0] > 0 else 0.0
    sub = [["num", a] for a in args]
    v = ref.ev([k] + sub, x, p, t, V)
    if not math.isfinite(v) or abs(v) > 1e150:
        raise ref.Undefined("range")
    # underflow is a representable-range effect too: sympy re-arranges the tree, and an intermediate of the re-arranged form may
    # overflow where the written form underflows to 0 (e.g. (s/(k*s^15))^565902); such points are not in the finite domain
    if (v != 0.0 and abs(v) < 1e-150) or (v == 0.0 and ((k == "*" and all(a != 0.0 for a in args)) or (k in ("/", "^") and args[0] != 0.0) or k == "exp")):
        raise ref.Undefined("underflow")
    return v


def close(g, e):
    return abs(g - e) <= 1e-8 * abs(e) + 1e-12


def run_case(case):
    import numpy as np
    from bioscrape.types import Model, parse_expression
    from bioscrape.simulator import ModelCSimInterface
    C = Counter()
    viol = util.ViolList()
    opcount = Counter()
    sp, par = case["species"], case["params"]
    s2i = {s: i for i, s in enumerate(sp)}
    p2i = {p: i for i, p in enumerate(par)}
    text = case["text"]
    if case["kind"] == "neg":
        C["negative_cases"] += 1
        outcomes = {}
        try:
            term = parse_expression(text, s2i, p2i)
            try:
                outcomes["parse_expression"] = "value %r" % term.py_evaluate(np.ones(len(sp)), np.ones(len(par)), 1.0)
            except Exception:
                outcomes["parse_expression"] = None
        except Exception:
            outcomes["parse_expression"] = None
        try:
            M = Model(species=sp + ["Y"], reactions=[(["A"], ["B"], "general", {"rate": text})], parameters=[(p, 1.0) for p in par],
                      initial_condition_dict={s: 2.0 for s in sp})
            pr = M.get_propensities()[0]
            outcomes["general propensity"] = "model built, rate %r" % pr.py_get_propensity(M.get_species_array(), np.array(M.get_parameter_values()), 0.0)
        except Exception:
            outcomes["general propensity"] = None
        try:
            M = Model(species=sp + ["Y"], reactions=[], parameters=[(p, 1.0) for p in par], rules=[("assignment", {"equation": "Y = " + text})],
                      initial_condition_dict={s: 2.0 for s in sp})
            ModelCSimInterface(M)
            outcomes["assignment rule"] = "model built"
        except Exception:
            outcomes["assignment rule"] = None
        for route, o in outcomes.items():
            if o is not None:
                viol.append({"key": "C02/accepted-invalid:%s" % case["neg"], "msg": "expression %r (%s) was accepted by %s: %s" % (text, case["neg"], route, o)})
        return {"viol": viol, "counters": dict(C), "nontrivial": True}

    tree = case["tree"]
    rj0 = random.Random(util.digest(["copy", case["tree"]]))
    ids = set(n[1] for n in ref.walk(tree) if n[0] in ("sp", "par"))
    # build through every route
    routes = {}
    try:
        routes["parse_expression"] = parse_expression(text, s2i, p2i)
    except Exception as e:
        C["rejected_valid"] += 1
        return {"viol": [], "counters": dict(C), "nontrivial": False, "classes": ["rejected_valid"]}
    try:
        # inside a Model a leading-underscore name is registered under both spellings (the term itself reads the
        # un-prefixed one); both are declared and always carry the same value, so the formula's meaning is unambiguous
        extra = ["_" + q for q in par if ("_" + q) in text.replace(" ", "")]
        M = Model(species=sp + ["Y"], reactions=[(["A"], ["B"], "general", {"rate": text})],
                  parameters=[(p, 1.0) for p in par + extra], rules=[("assignment", {"equation": "Y = " + text})],
                  initial_condition_dict={s: 1.0 for s in sp})
        routes["model.parse_general_expression"] = M.parse_general_expression(text)
        itf = ModelCSimInterface(M)
        # the same expression after a trip through pickle / deepcopy (a model handed to a worker process, a saved model):
        # still the written formula
        import pickle, copy
        try:
            routes["pickled term"] = pickle.loads(pickle.dumps(routes["parse_expression"], protocol=rj0.choice([2, 3, 4, 5])))
            M2 = copy.deepcopy(M) if rj0.random() < 0.5 else pickle.loads(pickle.dumps(M))
            routes["copied model"] = (M2, ModelCSimInterface(M2))
            C["copied_routes"] += 1
        except Exception as e:
            viol.append({"key": "C02/copy-raises", "msg": "pickling / copying the term or model for %r raised %r" % (text, e)})
    except Exception as e:
        C["rejected_valid_in_model"] += 1
        M = None
    # the rule is created BEFORE the parameters it mentions are declared (incremental model building): the names still mean
    # the parameters declared afterwards
    try:
        M5 = Model(species=sp + ["Y"], initialize_model=False, initial_condition_dict={s_: 1.0 for s_ in sp})
        M5.create_rule("assignment", {"equation": "Y = " + text})
        for q_ in par + ["_" + q for q in par if ("_" + q) in text.replace(" ", "")]:
            M5.create_parameter(q_, 1.0)
        routes["rule before parameters"] = (M5, ModelCSimInterface(M5))
        C["rule_before_parameter_routes"] += 1
    except Exception as e:
        C["rule_before_parameters_refused"] += 1
    # the species the text mentions are declared only AFTER the rule that uses them (through the initial-condition dictionary,
    # which the constructor reads last): such a model is either refused or means the written formula
    try:
        M6 = Model(species=["Y"], parameters=[(q_, 1.0) for q_ in par + ["_" + q for q in par if ("_" + q) in text.replace(" ", "")]],
                   rules=[("assignment", {"equation": "Y = " + text})], initial_condition_dict={s_: 1.0 for s_ in sp})
        routes["species declared after use"] = (M6, ModelCSimInterface(M6))
        C["species_declared_after_use_routes"] += 1
    except Exception as e:
        C["species_declared_after_use_refused"] += 1
    # the same text compiled again, in the same process, for a model that declares the same species in another order
    # (same names, same parameters): the formula's meaning does not depend on declaration order
    sp_r = list(reversed(sp)) if len(sp) > 1 else list(sp)
    if rj0.random() < 0.5:
        rj0.shuffle(sp_r)
    s2i_r = {s_: i_ for i_, s_ in enumerate(sp_r)}
    try:
        routes["reordered"] = parse_expression(text, s2i_r, p2i)
        M3 = None
        if M is not None:
            M3 = Model(species=sp_r + ["Y"], reactions=[(["A"], ["B"], "general", {"rate": text})],
                       parameters=[(p_, 1.0) for p_ in par + extra], rules=[("assignment", {"equation": "Y = " + text})],
                       initial_condition_dict={s_: 1.0 for s_ in sp})
            routes["reordered model"] = (M3, ModelCSimInterface(M3))
        C["reordered_routes"] += 1
    except Exception as e:
        viol.append({"key": "C02/reordered-raises", "msg": "compiling %r again with the species declared as %r raised %r" % (text, sp_r, e)})
    rj = random.Random(util.digest(tree))
    nontrivial = False
    for pt in case["points"]:
        x, p, t, V = pt["x"], pt["p"], pt["t"], pt["V"]
        try:
            e1 = ev_checked(tree, x, p, t, 1.0)
            eV = ev_checked(tree, x, p, t, V)
            ok = True
            for _ in range(3):
                j1 = ev_checked(tree, x, p, t, 1.0, rj)
                jV = ev_checked(tree, x, p, t, V, rj)
                if abs(j1 - e1) > 1e-9 * abs(e1) + 1e-13 or abs(jV - eV) > 1e-9 * abs(eV) + 1e-13:
                    ok = False
            if not ok:
                raise ref.Undefined("ill conditioned")
        except (ref.Undefined, OverflowError, ZeroDivisionError):
            C["skipped_ill_conditioned"] += 1
            continue
        xs = np.array([x[s] for s in sp])
        ps = np.array([p[q] for q in par])
        got = {}
        tm = routes["parse_expression"]
        got["parse_expression.py_evaluate"] = (tm.py_evaluate(xs.copy(), ps.copy(), t), e1)
        got["parse_expression.py_volume_evaluate"] = (tm.py_volume_evaluate(xs.copy(), ps.copy(), V, t), eV)
        if M is not None:
            xm = np.zeros(len(sp) + 1)
            idx = M.get_species2index()
            for s in sp:
                xm[idx[s]] = x[s]
            pm = np.array(M.get_parameter_values(), dtype=float)
            pidx = M.get_params2index()
            for q in par:
                pm[pidx[q]] = p[q]
            for q in extra:
                pm[pidx[q]] = p[q[1:]]
            tm2 = routes["model.parse_general_expression"]
            got["Model.parse_general_expression.py_evaluate"] = (tm2.py_evaluate(xm.copy(), pm.copy(), t), e1)
            pr = M.get_propensities()[0]
            got["general.py_get_propensity"] = (pr.py_get_propensity(xm.copy(), pm.copy(), t), e1)
            got["general.py_get_volume_propensity"] = (pr.py_get_volume_propensity(xm.copy(), pm.copy(), V, t), eV)
            # the forms the stochastic simulators call (guarded probes): a general rate has no combinatorial form, it is the
            # written formula, with and without a volume
            got["general.py_get_stochastic_propensity"] = (pr.py_get_stochastic_propensity(xm.copy(), pm.copy(), t), e1)
            got["general.py_get_stochastic_volume_propensity"] = (pr.py_get_stochastic_volume_propensity(xm.copy(), pm.copy(), V, t), eV)
            M.set_params({q: p[q] for q in par})
            M.set_params({q: p[q[1:]] for q in extra})
            st = xm.copy()
            itf.py_apply_repeated_rules(st, t, True)
            got["assignment rule (py_apply_repeated_rules)"] = (st[idx["Y"]], e1)
            st2 = xm.copy()
            itf.py_apply_repeated_volume_rules(st2, V, t, True)
            got["assignment rule (volume)"] = (st2[idx["Y"]], eV)
            if "pickled term" in routes:
                got["pickled term.py_evaluate"] = (routes["pickled term"].py_evaluate(xs.copy(), ps.copy(), t), e1)
                got["pickled term.py_volume_evaluate"] = (routes["pickled term"].py_volume_evaluate(xs.copy(), ps.copy(), V, t), eV)
            if "copied model" in routes:
                M2, itf2 = routes["copied model"]
                pr2 = M2.get_propensities()[0]
                got["copied model: general.py_get_propensity"] = (pr2.py_get_propensity(xm.copy(), pm.copy(), t), e1)
                got["copied model: general.py_get_volume_propensity"] = (pr2.py_get_volume_propensity(xm.copy(), pm.copy(), V, t), eV)
                M2.set_params({q: p[q] for q in par})
                M2.set_params({q: p[q[1:]] for q in extra})
                st3 = xm.copy()
                itf2.py_apply_repeated_rules(st3, t, True)
                got["copied model: assignment rule"] = (st3[idx["Y"]], e1)
        if "reordered" in routes:
            xr = np.array([x[s_] for s_ in sp_r])
            got["parse_expression (species declared as %s)" % ",".join(sp_r)] = (routes["reordered"].py_evaluate(xr.copy(), ps.copy(), t), e1)
        if "reordered model" in routes:
            M3, itf3 = routes["reordered model"]
            idx3, pidx3 = M3.get_species2index(), M3.get_params2index()
            x3 = np.zeros(len(sp) + 1)
            for s_ in sp:
                x3[idx3[s_]] = x[s_]
            p3 = np.array(M3.get_parameter_values(), dtype=float)
            for q in par:
                p3[pidx3[q]] = p[q]
            for q in extra:
                p3[pidx3[q]] = p[q[1:]]
            got["model with species declared as %s: general.py_get_volume_propensity" % ",".join(sp_r)] = (
                M3.get_propensities()[0].py_get_volume_propensity(x3.copy(), p3.copy(), V, t), eV)
            M3.set_params({q: p[q] for q in par})
            M3.set_params({q: p[q[1:]] for q in extra})
            st4 = x3.copy()
            itf3.py_apply_repeated_rules(st4, t, True)
            got["model with species declared as %s: assignment rule" % ",".join(sp_r)] = (st4[idx3["Y"]], e1)
        if "rule before parameters" in routes:
            M5, itf5 = routes["rule before parameters"]
            idx5 = M5.get_species2index()
            x5 = np.zeros(len(idx5))
            for s_ in sp:
                x5[idx5[s_]] = x[s_]
            M5.set_params({q: p[q] for q in par})
            M5.set_params({"_" + q: p[q] for q in par if ("_" + q) in M5.get_params2index()})
            st5 = x5.copy()
            itf5.py_apply_repeated_rules(st5, t, True)
            got["assignment rule created before its parameters were declared"] = (st5[idx5["Y"]], e1)
        if "species declared after use" in routes:
            M6, itf6 = routes["species declared after use"]
            idx6 = M6.get_species2index()
            x6 = np.zeros(len(idx6))
            for s_ in sp:
                if s_ in idx6:
                    x6[idx6[s_]] = x[s_]
            M6.set_params({q: p[q] for q in par})
            M6.set_params({"_" + q: p[q] for q in par if ("_" + q) in M6.get_params2index()})
            st6 = x6.copy()
            itf6.py_apply_repeated_rules(st6, t, True)
            got["assignment rule whose species were declared after it (initial_condition_dict)"] = (st6[idx6["Y"]], e1)
        for route, (g, e) in got.items():
            C["accepted_evaluations"] += 1
            if not (math.isfinite(g) and close(g, e)):
                ops = sorted(set(n[0] for n in ref.walk(tree) if n[0] not in ("num", "sp", "par")))
                if len(viol) < 4:
                    viol.append({"key": "C02/wrong-value", "msg": "%r via %s at x=%s p=%s t=%s V=%s: got %r, formula value %r (operators %s)" % (
                        text, route, x, p, t, V, g, e, ops)})
        for n in ref.walk(tree):
            if n[0] not in ("num", "sp", "par"):
                opcount[n[0]] += 1
        for i in ids:
            if i in SINGLE:
                opcount["id:" + i] += 1
        if nops(tree) >= 3 and len(ids) >= 2 and e1 not in (0.0, 1.0):
            nontrivial = True
    return {"viol": viol, "counters": dict(C), "nontrivial": nontrivial, "opcount": dict(opcount)}


def aggregate(cases, records, tier, seed, run_more):
    oc = Counter()
    for r in records:
        if r and "opcount" in r:
            for k, v in r["opcount"].items():
                oc[k] += v
    mo = min(oc.get(o, 0) for o in OPS + ["t", "vol"])
    ml = min(oc.get("id:" + l, 0) for l in SINGLE)
    return {"counters": {"min_operator_count": mo, "min_single_letter_count": ml}, "evidence": {"operator_and_identifier_counts": dict(oc)}}

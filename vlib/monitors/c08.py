"""C08 - results depend only on the model's current definition and the seed."""
import math
from collections import Counter
from vlib import util, ref, gen, spec as specmod
from vlib.monitors import c17

PROPERTY = "C08"
RULE = ("random operation histories (length 5-40) over {add reaction (any type, with/without delay), add rule, set_parameter / set_params / "
        "set_species (incl. set-then-restore), py_initialize (repeated), build plain / safe interface, simulate (deterministic, stochastic, safe, "
        "volume, delay; through py_simulate_model and through a previously built interface), seed the generator, pickle round trip} generated "
        "from a target definition so that they provably end in it; a twin is built in one constructor call (species declared in another order); "
        "afterwards seeded stochastic / safe / delay / volume simulations of history model and twin must be bitwise equal by species name, "
        "deterministic ones equal to 1e-10, every simulation repeatable, and initial condition / non-rule-assigned parameters unchanged by every "
        "simulate step; using a stale interface may raise RuntimeError but must not corrupt anything; lineage models with re-initialisation are "
        "compared through py_SimulateSingleCell; non-trivial = >=2 edits after the first initialisation and >=1 simulation before the final "
        "definition is reached; distinct by history digest")
ASSUMPTIONS = ["models in which a rule assigns a parameter are excluded from the equality part (as the property does)",
               "deterministic outputs compared with rtol 1e-10 (parameter-index-dependent summation order)"]
RUN_OPTS = {"batch_size": 6, "timeout_per_case": 40.0}
MINIMA = {"*": {"histories": 100, "final_comparisons": 400, "repeat_comparisons": 200, "simulate_steps_checked": 200, "stale_interface_uses": 20,
                "lineage_histories": 10}}
SANITIZE_TIERS = ("thorough",)


def gen_history(rnd, sp):
    ops = []
    nrx, nrl = len(sp["reactions"]), len(sp["rules"])
    params = dict(sp["params"])
    added_rx, added_rl = 0, 0
    inited = False
    edits_after_init, sims_before_final = 0, 0
    ifaces = 0
    L = rnd.randint(5, 40)
    tmp_param, tmp_species = {}, {}
    # parameters named in the target are all given values first (a model cannot initialise otherwise)
    ops.append(["set_params", dict(params)])
    ops.append(["set_species", dict(sp["x0"])])
    while len(ops) < L or added_rx < nrx or added_rl < nrl:
        done = added_rx == nrx and added_rl == nrl
        choices = []
        if added_rx < nrx:
            choices += ["reaction"] * 4
        if added_rl < nrl and added_rx >= min(nrx, 1):
            choices += ["rule"] * 2
        choices += ["set_param", "set_species", "init", "iface", "sim", "sim", "seed", "pickle", "restore", "refused_edit", "failed_sim"]
        if ifaces:
            choices += ["sim_iface"] * 2
        op = rnd.choice(choices)
        if op == "reaction":
            ops.append(["reaction", added_rx])
            added_rx += 1
            edits_after_init += inited
        elif op == "rule":
            ops.append(["rule", added_rl])
            added_rl += 1
            edits_after_init += inited
        elif op == "set_param" and [q for q in params if q.startswith(("k_", "g1", "c_r"))]:
            # temporary values only for rate-like parameters and within +-50%: exponents (g2, Hill n) can turn a tame
            # intermediate model into an explosive one, which only makes the history slow
            k = rnd.choice(sorted(q for q in params if q.startswith(("k_", "g1", "c_r"))))
            ops.append(["set_param", k, float("%.4g" % (params[k] * rnd.uniform(0.5, 1.5))), rnd.choice(["set_parameter", "set_params"])])
            tmp_param[k] = True
            edits_after_init += inited
        elif op == "set_species":
            s = rnd.choice(sorted(sp["x0"]))
            ops.append(["set_species", {s: float(rnd.randint(0, 9))}])
            tmp_species[s] = True
            edits_after_init += inited
        elif op == "restore":
            if tmp_param:
                ops.append(["set_params", {k: params[k] for k in tmp_param}])
                tmp_param = {}
            if tmp_species:
                ops.append(["set_species", {s: sp["x0"][s] for s in tmp_species}])
                tmp_species = {}
        elif op == "init":
            ops.append(["init"])
            inited = True
        elif op == "iface":
            ops.append(["iface", rnd.choice(["plain", "safe"])])
            ifaces += 1
            inited = True
        elif op == "sim":
            ops.append(["sim", rnd.choice(["det", "stochastic", "safe", "volume", "delay"])])
            inited = True
            sims_before_final += (not done)
        elif op == "sim_iface":
            ops.append(["sim_iface", rnd.randrange(ifaces), rnd.choice(["det", "stochastic", "volume"])])
            sims_before_final += (not done)
        elif op == "seed":
            ops.append(["seed", rnd.getrandbits(30) + 1])
        elif op == "pickle":
            ops.append(["pickle", rnd.choice([2, 4, 5, "deepcopy"])])
        elif op == "failed_sim":
            # a simulation call that raises (integer / empty / 2-d time grid, a list instead of an array); the exception is swallowed
            ops.append(["failed_sim", rnd.choice(["int_grid", "int_grid_delay", "empty_grid", "two_d_grid", "list_grid"])])
            inited = True
        elif op == "refused_edit":
            # an edit bioscrape refuses (undeclared species inside a rate law); the exception is swallowed and work goes on
            ops.append(["refused_edit", rnd.choice(["hill_s1", "prophill_d", "ma_species", "hill_delay"])])
        if len(ops) > 80:
            break
    # finish: remaining pieces and the definitive values
    while added_rx < nrx:
        ops.append(["reaction", added_rx]); added_rx += 1
    while added_rl < nrl:
        ops.append(["rule", added_rl]); added_rl += 1
    ops.append(["set_params", dict(params)])
    if rnd.random() < 0.5:
        ops.append(["set_species", dict(sp["x0"])])
    else:
        # one call per species
        for s_ in sp["x0"]:
            ops.append(["set_species", {s_: sp["x0"][s_]}])
    return ops, (edits_after_init >= 2 and sims_before_final >= 1)


def stable_spec(rnd):
    """a C17-style spec whose degradation reactions come first and whose every reaction-list prefix is non-explosive
    (histories simulate intermediate definitions too)"""
    for _ in range(300):
        sp = c17._gen_spec(rnd)
        sp["reactions"] = sp["reactions"][-2:] + sp["reactions"][:-2]
        ok = True
        for k in range(1, len(sp["reactions"]) + 1):
            part = dict(sp, reactions=sp["reactions"][:k], rules=[],
                        params={q: (v * 1.5 if q.startswith(("k_", "g1")) else v) for q, v in sp["params"].items()})
            if gen.superlinear_producer(part) or not (gen.bounded(part, 2.0, 200.0) and gen.ssa_screen(part, 2.0, max_events=1500, trials=2, seed=rnd.getrandbits(30))):
                ok = False
                break
        if ok:
            return sp
    raise RuntimeError("no stable spec found")


def generate(tier, seed):
    rnd = util.rng(PROPERTY, tier, seed, "cases")
    n = 120 if tier == "quick" else 4000
    cases = []
    for i in range(n):
        sp = stable_spec(rnd)
        lineage = (i % 8 == 0)
        ops, nontrivial = gen_history(rnd, sp)
        if lineage:
            ops = [o for o in ops if o[0] not in ("iface", "sim_iface", "pickle")]
        sh = list(sp["species"])
        rnd.shuffle(sh)
        cases.append({"spec": sp, "ops": ops, "shuffled_species": sh, "lineage": lineage, "nontrivial": nontrivial,
                      # "all seeds": one of the three is a 64-bit value (some with all-zero low 32 bits)
                      "seeds": [rnd.getrandbits(30) + 1, rnd.getrandbits(30) + 1,
                                rnd.choice([2 ** 32, 3 * 2 ** 32, 2 ** 40, 2 ** 63, 2 ** 64 - 2 ** 32, 2 ** 32 + rnd.getrandbits(20) + 1, rnd.getrandbits(63) + 2 ** 33])]})
    return cases


def sanitize_subset(cases):
    return [c for c in cases if any(o[0] == "sim_iface" for o in c["ops"])][:300] + cases[:100]


def classify_crash(case, rec):
    if any(o[0] == "sim_iface" for o in case["ops"]):
        return "C08/crash:stale-interface-after-reinit"
    return "C08/crash"


def run_case(case):
    import pickle, copy
    import numpy as np
    from bioscrape.types import Model
    from bioscrape.simulator import ModelCSimInterface, SafeModelCSimInterface, py_simulate_model, SSASimulator, DeterministicSimulator, VolumeSSASimulator
    from bioscrape.types import Volume
    import bioscrape.random as brandom
    C = Counter({"histories": 1})
    viol = util.ViolList()
    sp = case["spec"]
    lineage = case["lineage"]
    tp = 0.125 * np.arange(17)
    if lineage:
        from bioscrape.lineage import LineageModel, py_SimulateSingleCell
        cls = LineageModel
        C["lineage_histories"] += 1
    else:
        cls = Model
    rule_assigned_params = set(r["target"] for r in sp["rules"] if r["target"] in sp["params"])

    def bad(key, msg):
        if len(viol) < 5:
            viol.append({"key": "C08/%s%s" % (key, ":lineage" if lineage else ""), "msg": msg})

    H = cls(species=list(case["shuffled_species"]), initialize_model=False)
    ifaces = []

    def simulate(M, kind, itf=None):
        if lineage:
            r = py_SimulateSingleCell(tp.copy(), Model=M, return_dataframes=False)
            return np.array(r.py_get_result(), dtype=float)
        if itf is not None:
            itf.py_set_dt(float(tp[1] - tp[0]))      # what py_simulate_model does for the interface it builds (dt / ode rules step by it)
            if kind == "det":
                itf.py_prep_deterministic_simulation()
                return np.array(DeterministicSimulator().py_simulate(itf, tp.copy()).py_get_result(), dtype=float)
            if kind == "volume":
                v = Volume(); v.py_set_volume(2.0)
                itf.py_set_dt(0.125)
                return np.array(VolumeSSASimulator().py_volume_simulate(itf, v, tp.copy()).py_get_result(), dtype=float)
            return np.array(SSASimulator().py_simulate(itf, tp.copy()).py_get_result(), dtype=float)
        kw = {"det": dict(stochastic=False), "stochastic": dict(stochastic=True), "safe": dict(stochastic=True, safe=True),
              "volume": dict(stochastic=True, volume=2.0), "delay": dict(stochastic=True, delay=True)}[kind]
        return np.array(py_simulate_model(tp.copy(), Model=M, return_dataframe=False, **kw).py_get_result(), dtype=float)

    def snapshot(M):
        return ({s: float(v) for s, v in M.get_species_dictionary().items()},
                {p: float(v) for p, v in M.get_parameter_dictionary().items() if p not in rule_assigned_params})

    pre_ifaces = []
    iface_models = {}
    last_set_params = max([i_ for i_, o_ in enumerate(case["ops"]) if o_[0] == "set_params"] or [-1])
    for oi, op in enumerate(case["ops"]):
        k = op[0]
        if oi == last_set_params and not lineage:
            # interfaces built on the finished structure but BEFORE the definitive values are set: value edits do not make an
            # interface stale, so simulating through them afterwards must give the current definition's results
            try:
                pre_ifaces = [("plain", ModelCSimInterface(H)), ("safe", SafeModelCSimInterface(H))]
                if case["seeds"][0] % 2 == 0:
                    # ... and already used once (deterministically and stochastically) before the values change
                    for _nm, _I in pre_ifaces:
                        for _kind in ("det", "stochastic"):
                            try:
                                simulate(H, _kind, itf=_I)
                            except Exception:
                                pass
                    C["pre_built_interfaces_used_before_value_edits"] += 1
            except Exception as e:
                bad("operation-raises", "building interfaces before the final value edits raised %r" % (e,))
        try:
            if k == "reaction":
                t = specmod.rxn_tuple(sp["reactions"][op[1]])
                if len(t) == 4:
                    H.create_reaction(t[0], t[1], t[2], t[3])
                else:
                    H.create_reaction(t[0], t[1], t[2], t[3], delay_type=t[4], delay_reactants=t[5], delay_products=t[6], delay_param_dict=t[7])
            elif k == "rule":
                t = specmod.rule_tuple(sp["rules"][op[1]])
                H.create_rule(t[0], dict(t[1]), rule_frequency=t[2])
            elif k == "failed_sim":
                if not lineage:
                    bad_tp = {"int_grid": np.arange(5), "int_grid_delay": np.arange(5), "empty_grid": np.array([]), "two_d_grid": np.zeros((2, 3)),
                              "list_grid": [0.0, 0.5, 1.0]}[op[1]]
                    try:
                        py_simulate_model(bad_tp, Model=H, stochastic=True, delay=(True if op[1] == "int_grid_delay" else None))
                    except Exception:
                        C["failed_simulation_calls"] += 1
            elif k == "refused_edit":
                try:
                    specmod._poison(H, {"species": list(case["shuffled_species"]), "poison": [[0, op[1]]]}, 0)
                    C["refused_edits"] += 1
                except specmod.PoisonAccepted:
                    return {"error": "harness: the edit meant to be refused was accepted (%s)" % op[1]}
            elif k == "set_param":
                if op[3] == "set_parameter":
                    H.set_parameter(op[1], op[2])
                else:
                    H.set_params({op[1]: op[2]})
            elif k == "set_params":
                for kk, vv in op[1].items():
                    H.set_parameter(kk, vv)
            elif k == "set_species":
                H.set_species(op[1])
            elif k == "init":
                H.py_initialize()
            elif k == "iface":
                ifaces.append(SafeModelCSimInterface(H) if op[1] == "safe" else ModelCSimInterface(H))
                iface_models[len(ifaces) - 1] = H
            elif k == "seed":
                brandom.py_seed_random(op[1])
            elif k == "pickle":
                H = copy.deepcopy(H) if op[1] == "deepcopy" else pickle.loads(pickle.dumps(H, protocol=op[1]))
            elif k in ("sim", "sim_iface"):
                before = snapshot(H)
                kind = op[1] if k == "sim" else op[2]
                if kind == "delay" and not H.has_delays():
                    kind = "stochastic"
                try:
                    if k == "sim":
                        simulate(H, kind)
                    else:
                        C["stale_interface_uses"] += 1
                        sd_ = 1 + (oi * 7919) % 100000
                        brandom.py_seed_random(sd_)
                        a_ = simulate(H, kind, itf=ifaces[op[1]])
                        if not lineage and not rule_assigned_params and iface_models.get(op[1]) is H:
                            # an interface made earlier ON THIS MODEL OBJECT (not on one it was copied from) that the library ACCEPTS (no structural edit since, or none it objects
                            # to) stands for the model as it is now: same output as an interface of its class made this instant
                            brandom.py_seed_random(sd_)
                            b_ = simulate(H, kind, itf=type(ifaces[op[1]])(H))
                            H.set_params({k_: v_ for k_, v_ in H.get_parameter_dictionary().items()})
                            C["accepted_old_interface_comparisons"] += 1
                            if a_.shape != b_.shape:
                                bad("history-dependence:accepted-old-interface:" + kind, "op %d: an interface built %d operations ago is accepted and returns %r values, one built now %r" % (oi, oi, a_.shape, b_.shape))
                            elif not (np.allclose(a_, b_, rtol=1e-5, atol=1e-7 * (1.0 + float(np.nanmax(np.abs(b_))) if b_.size else 1.0), equal_nan=True)
                                      if kind == "det" else np.array_equal(a_, b_, equal_nan=True)):
                                j_ = int(np.argmax(~np.isclose(a_, b_, rtol=1e-5, atol=1e-9, equal_nan=True).all(axis=1)))
                                bad("history-dependence:accepted-old-interface:" + kind, "op %d: a %s simulation through an interface built earlier (and accepted) differs from one through an interface built now, same seed (row %d: %r vs %r)" % (
                                    oi, kind, j_, list(a_[j_][:4]), list(b_[j_][:4])))
                except RuntimeError as e:
                    if k == "sim_iface" and "no longer valid" in str(e):
                        C["stale_interface_refused"] += 1
                    else:
                        raise
                after = snapshot(H)
                C["simulate_steps_checked"] += 1
                if before != after:
                    d0 = {kk: (before[0].get(kk), after[0].get(kk)) for kk in before[0] if before[0][kk] != after[0].get(kk)}
                    d1 = {kk: (before[1].get(kk), after[1].get(kk)) for kk in before[1] if before[1][kk] != after[1].get(kk)}
                    bad("simulation-changed-model", "op %d %r changed the model: species %r parameters %r" % (oi, op, d0, d1))
        except Exception as e:
            bad("operation-raises", "op %d %r raised %r" % (oi, op, e))
            return {"viol": viol, "counters": dict(C), "nontrivial": False}
    # the twin: one constructor call from the same definition (species declared in the target order)
    T = specmod.build_model(sp, "ctor", cls=cls)
    a, b = snapshot(H), snapshot(T)
    # generated ("DummyVar_...") parameter names carry a running number that a refused edit legitimately advances, and such an
    # edit may leave unused generated parameters behind: named parameters are compared here, generated ones through behaviour
    nd = lambda d: {k: v for k, v in d.items() if not k.startswith("DummyVar_")}
    if a[0] != b[0] or nd(a[1]) != nd(b[1]):
        bad("definition-mismatch", "after the history the dictionaries differ from the twin's: species %r / %r ; params differ on %r" % (
            a[0], b[0], [k for k in set(a[1]) | set(b[1]) if a[1].get(k) != b[1].get(k)]))
        return {"viol": viol, "counters": dict(C), "nontrivial": case["nontrivial"]}
    ih, it = H.get_species2index(), T.get_species2index()
    kinds = ["stochastic"] if lineage else ["stochastic", "safe", "volume", "det"] + (["delay"] if T.has_delays() else [])
    for kind in kinds:
        for seed in case["seeds"]:
            out = []
            for M in (H, H, T):
                brandom.py_seed_random(seed)
                try:
                    X = simulate(M, kind)
                except Exception as e:
                    X = "raised %s: %s" % (type(e).__name__, str(e)[:80])
                out.append(X)
                if not rule_assigned_params:
                    pass
                M.set_params({k: v for k, v in sp["params"].items()})
            h1, h2, t1 = out
            if isinstance(h1, str) or isinstance(t1, str) or isinstance(h2, str):
                if not (isinstance(h1, str) and isinstance(t1, str) and isinstance(h2, str)):
                    bad("outcome-differs:" + kind, "seed %d: history model %s, repeated %s, twin %s" % (seed, h1 if isinstance(h1, str) else "ok", h2 if isinstance(h2, str) else "ok", t1 if isinstance(t1, str) else "ok"))
                continue
            C["repeat_comparisons"] += 1
            eqf = (lambda x, y: np.allclose(x, y, rtol=1e-10, atol=1e-12, equal_nan=True)) if kind == "det" else (lambda x, y: np.array_equal(x, y, equal_nan=True))
            if not eqf(h1, h2):
                bad("not-repeatable:" + kind, "seed %d: two %s simulations of the same model from the same seed differ" % (seed, kind))
            if rule_assigned_params:
                continue
            C["final_comparisons"] += 1
            if kind == "det":
                # the twin may hold its parameters in another internal order: its right-hand side then differs in the last bit and
                # the adaptive integrator may choose other steps, so the two agree to the integrator's tolerance, not to the bit
                eqf = lambda x, y: np.allclose(x, y, rtol=1e-5, atol=1e-7 * (1.0 + float(np.nanmax(np.abs(y))) if np.size(y) else 1.0), equal_nan=True)
            for s in ih:
                if not eqf(h1[:, ih[s]], t1[:, it[s]]):
                    j = int(np.argmax(~np.isclose(h1[:, ih[s]], t1[:, it[s]], rtol=1e-5, atol=0, equal_nan=True))) if kind == "det" else int(np.argmax(h1[:, ih[s]] != t1[:, it[s]]))
                    bad("history-dependence:" + kind, "seed %d: %s simulation of the model reached through the history differs from the freshly built twin (species %s, row %d: %r vs %r)" % (
                        seed, kind, s, j, h1[j, ih[s]], t1[j, it[s]]))
                    break
    if not rule_assigned_params:
        for nm, I in pre_ifaces:
            for kind in (["stochastic", "volume", "det"] if nm == "plain" else ["stochastic"]):
                seed = case["seeds"][0]
                try:
                    brandom.py_seed_random(seed)
                    a = simulate(H, kind, itf=I)
                    H.set_params({k_: v_ for k_, v_ in sp["params"].items()})
                    brandom.py_seed_random(seed)
                    b = simulate(T, "safe" if nm == "safe" else kind)
                    T.set_params({k_: v_ for k_, v_ in sp["params"].items()})
                except Exception as e:
                    bad("operation-raises", "simulating through an interface built before the final value edits raised %r" % (e,))
                    continue
                C["pre_built_interface_comparisons"] += 1
                eqf = (lambda x, y: np.allclose(x, y, rtol=1e-5, atol=1e-7 * (1.0 + float(np.nanmax(np.abs(y))) if np.size(y) else 1.0), equal_nan=True)) if kind == "det" else (lambda x, y: np.array_equal(x, y, equal_nan=True))
                for s in ih:
                    if not eqf(a[:, ih[s]], b[:, it[s]]):
                        j = int(np.argmax(a[:, ih[s]] != b[:, it[s]]))
                        bad("history-dependence:interface-built-before-value-edits:" + kind,
                            "%s simulation through a %s interface built before the last set_params/set_species differs from the freshly built twin (species %s, row %d: %r vs %r)" % (
                                kind, nm, s, j, a[j, ih[s]], b[j, it[s]]))
                        break
    return {"viol": viol, "counters": dict(C), "nontrivial": case["nontrivial"]}

"""C01 - built-in rate laws equal their documented closed forms (4 modes x 3 routes)."""
import random, math, itertools
from collections import Counter
from vlib import util, ref, gen, spec as specmod

PROPERTY = "C01"
RULE = ("random reactions of every built-in type (mass action orders 0..4 with repeats, four Hill families; numeric and named "
        "parameters; shuffled species declaration order; reactions consuming every species placed first/last) evaluated at integer "
        "boundary states and real states, volumes in [0.05,50], in the four evaluation modes through (i) the propensity object, "
        "(ii) the plain interface probes, (iii) the safe interface probes, against ref.rate; non-trivial = expected rate > 0 and != k; "
        "distinct by (case digest); class cells = type x mode x route")
ASSUMPTIONS = ["reference closed forms in vlib/ref.py", "stochastic falling factorial asserted on integer states when a reactant repeats"]
RUN_OPTS = {"batch_size": 25, "timeout_per_case": 20.0}
MINIMA = {"*": {"evaluations": 3000, "nontrivial_evaluations": 1000, "min_cell": 20, "passes_after_history": 50, "cases_with_shared_parameter_dict": 30}}

TYPES = ["massaction0", "massaction1", "massaction2", "massaction3", "massaction4"] + list(gen.HILL)


def gen_case(rnd, force_all=False, force_shared=False):
    nsp = rnd.randint(1, 5)
    species = rnd.sample(gen.SPECIES_POOL, nsp)
    params = {}
    rxns = []
    nrx = rnd.randint(1, 3)
    for i in range(nrx):
        ty = rnd.choice(TYPES)
        tag = "r%d" % i
        if ty.startswith("massaction"):
            order = int(ty[-1])
            if force_all and i in (0, nrx - 1) and order >= nsp:
                ms = list(species) + gen.multiset(rnd, species, order - nsp)
                rnd.shuffle(ms)
            else:
                ms = gen.multiset(rnd, species, order)
            f = {"k": gen.pfield(rnd, "k_" + tag, gen.nice(rnd, 1e-3, 1e3), params)}
            if rnd.random() < 0.5:
                f["species"] = "*".join(ms) if ms else rnd.choice(["", "0"])
                if ms and rnd.random() < 0.3:
                    f["species"] = " * ".join(ms)
            prods = gen.multiset(rnd, species, rnd.randint(0, 2))
            if rnd.random() < 0.2 and ms:
                prods = prods + [ms[0]]  # catalyst-like
            rxns.append({"type": "massaction", "reactants": ms, "products": prods, "fields": f})
        else:
            f = gen.hill_rxn(rnd, ty, species, params, tag)
            reac = gen.multiset(rnd, species, rnd.randint(0, 2))
            if force_all and i == nrx - 1:
                reac = list(species)
            rxns.append({"type": ty, "reactants": reac, "products": gen.multiset(rnd, species, rnd.randint(0, 2)), "fields": f})
    # several mass-action reactions written with one shared parameter dictionary (no explicit species string)
    if force_shared:
        for r in rxns:
            if r["type"] == "massaction":
                r["fields"].pop("species", None)
        while sum(1 for r in rxns if r["type"] == "massaction") < 2:
            rxns.append({"type": "massaction", "reactants": gen.multiset(rnd, species, rnd.randint(0, 4)), "products": gen.multiset(rnd, species, rnd.randint(0, 2)),
                         "fields": {"k": gen.pfield(rnd, "k_x%d" % len(rxns), gen.nice(rnd, 1e-3, 1e3), params)}})
    ma = [r for r in rxns if r["type"] == "massaction" and "species" not in r["fields"]]
    if len(ma) >= 2 and (force_shared or rnd.random() < 0.6):
        for r in ma:
            r["fields"] = dict(ma[0]["fields"])
            r["share"] = "g0"
    # evaluation points
    pts = []
    maxm = {}
    for r in rxns:
        for s, m in Counter(r["reactants"]).items():
            maxm[s] = max(maxm.get(s, 0), m)
    for j in range(7):
        kind = "int" if (j < 4 or j == 6) else "real"
        x = {}
        for s in species:
            if j == 6:
                # large copy numbers: the falling factorial of thousands of molecules is still an exact integer in a double
                x[s] = rnd.choice([rnd.randint(1000, 5000), rnd.randint(10 ** 4, 10 ** 6), 65535, 65536, 2 ** 31 - 1, rnd.randint(1, 6)])
            elif kind == "int":
                m = maxm.get(s, 1)
                x[s] = rnd.choice([0, max(m - 1, 0), m, m + 1, rnd.randint(0, 6), rnd.randint(1, 6)])
            else:
                x[s] = float("%.6g" % rnd.choice([rnd.uniform(0, 50), rnd.uniform(0, 4)])) if rnd.random() < 0.9 else 0.0
        pts.append({"x": x, "V": gen.nice(rnd, 0.05, 50), "t": float("%.3g" % rnd.uniform(0, 20)), "kind": kind})
    return {"species": species, "x0": {s: 1 for s in species}, "params": params, "reactions": rxns, "rules": [],
            "points": pts, "route": rnd.choice(["ctor", "incremental", "icd"]),
            # operations on the SAME model between two evaluation passes; none of them may change what a rate law means
            "ops": [rnd.choice(["reinit", "reinit", "new_values", "other_model", "simulate", "interfaces_first"]) for _ in range(rnd.choice([0, 0, 1, 2, 3]))],
            "newvals": {k: gen.nice(rnd, 1e-3, 1e3) for k in params}}


SANITIZE_TIERS = ("thorough",)


def sanitize_subset(cases):
    return cases[:250]


def generate(tier, seed):
    rnd = util.rng(PROPERTY, tier, seed, "cases")
    n = 400 if tier == "quick" else 12000
    return [gen_case(rnd, force_all=(i % 3 == 0), force_shared=(i % 5 == 1)) for i in range(n)]


def cls_of(r):
    if r["type"] == "massaction":
        return "massaction%d" % len(ref.ma_multiset(r))
    return r["type"]


def close(a, b, rel=1e-12):
    if a == b:
        return True
    if not (math.isfinite(a) and math.isfinite(b)):
        return False
    return abs(a - b) <= rel * max(abs(a), abs(b)) + 1e-300


def run_case(case):
    import numpy as np
    import bioscrape.types as bt
    from bioscrape.simulator import ModelCSimInterface, SafeModelCSimInterface
    C = Counter()
    cells = Counter()
    viol = util.ViolList()
    M = specmod.build_model(case, case["route"])
    S, Sd = ref.stoich(case)
    state = {"pdict": dict(case["params"]), "nontrivial": False}
    if any(r.get("share") for r in case["reactions"]):
        C["cases_with_shared_parameter_dict"] += 1
    evaluate_pass(case, M, state, C, cells, viol, S, "")
    if case.get("ops"):
        for op in case["ops"]:
            if op == "reinit":
                M.py_initialize()
            elif op == "new_values":
                # Hill exponents / constants keep their role-specific ranges: only rate constants k_* are rescaled
                ch = {k: v for k, v in case["newvals"].items() if k.startswith("k_")}
                if ch:
                    M.set_params(ch)
                    state["pdict"].update(ch)
            elif op == "other_model":
                other = dict(case)
                other["species"] = list(reversed(case["species"]))
                specmod.build_model(other, "ctor")
            elif op == "simulate":
                from bioscrape.simulator import py_simulate_model
                try:
                    py_simulate_model(np.linspace(0, 0.01, 3), Model=M, stochastic=False)
                except Exception:
                    pass
            elif op == "interfaces_first":
                ModelCSimInterface(M)
                SafeModelCSimInterface(M)
        C["passes_after_history"] += 1
        evaluate_pass(case, M, state, C, cells, viol, S, " after " + "+".join(case["ops"]))
    return {"viol": viol, "counters": dict(C), "nontrivial": state["nontrivial"], "cells": {"|".join(k): v for k, v in cells.items()}}


def evaluate_pass(case, M, state, C, cells, viol, S, hist):
    import numpy as np
    import bioscrape.types as bt
    from bioscrape.simulator import ModelCSimInterface, SafeModelCSimInterface
    plain = ModelCSimInterface(M)
    safe = SafeModelCSimInterface(M)
    props = M.get_propensities()
    pv = specmod.param_vec(M)
    pdict = state["pdict"]
    sp_list = M.get_species_list()
    # directly constructed + initialised propensity objects (named parameters only)
    direct = {}
    for i, r in enumerate(case["reactions"]):
        f = r["fields"]
        if all(isinstance(v, str) and not _isnum(v) for k, v in f.items() if k in ("k", "K", "n")):
            try:
                if r["type"] == "massaction":
                    ms = ref.ma_multiset(r)
                    obj = bt.MassActionPropensity()
                    obj.initialize({"k": f["k"], "species": "*".join(ms)}, M.get_species2index(), M.get_params2index())
                else:
                    obj = {"hillpositive": bt.PositiveHillPropensity, "hillnegative": bt.NegativeHillPropensity,
                           "proportionalhillpositive": bt.PositiveProportionalHillPropensity,
                           "proportionalhillnegative": bt.NegativeProportionalHillPropensity}[r["type"]]()
                    obj.initialize(dict(f), M.get_species2index(), M.get_params2index())
                direct[i] = obj
            except Exception as e:  # construction refused: not a value, nothing to compare
                C["direct_refused"] += 1
    for pt in case["points"]:
        x = specmod.state_vec(M, pt["x"])
        V, t = pt["V"], pt["t"]
        got = {
            ("det", "plain"): plain.py_compute_propensities(x.copy(), t),
            ("vol", "plain"): plain.py_compute_volume_propensities(x.copy(), V, t),
            ("stoch", "plain"): plain.py_compute_stochastic_propensities(x.copy(), t),
            ("stochvol", "plain"): plain.py_compute_stochastic_volume_propensities(x.copy(), V, t),
            ("det", "safe"): safe.py_compute_propensities(x.copy(), t),
            ("vol", "safe"): safe.py_compute_volume_propensities(x.copy(), V, t),
            ("stoch", "safe"): safe.py_compute_stochastic_propensities(x.copy(), t),
            ("stochvol", "safe"): safe.py_compute_stochastic_volume_propensities(x.copy(), V, t),
        }
        for i, r in enumerate(case["reactions"]):
            cl = cls_of(r)
            repeats = r["type"] == "massaction" and max(Counter(ref.ma_multiset(r)).values() or [1]) > 1
            objs = [("object", props[i])]
            if i in direct:
                objs.append(("direct", direct[i]))
            for rname, o in objs:
                got[("det", rname, i)] = o.py_get_propensity(x.copy(), pv.copy(), t)
                got[("vol", rname, i)] = o.py_get_volume_propensity(x.copy(), pv.copy(), V, t)
                got[("stoch", rname, i)] = o.py_get_stochastic_propensity(x.copy(), pv.copy(), t)
                got[("stochvol", rname, i)] = o.py_get_stochastic_volume_propensity(x.copy(), pv.copy(), V, t)
            # full complement present? (safe-mode clause: consumption by immediate and delayed parts)
            need = {s: -v for s, v in S[i].items() if v < 0}
            full = all(pt["x"][s] >= n for s, n in need.items())
            for mode in ref.MODES:
                if mode in ("stoch", "stochvol") and repeats and pt["kind"] != "int":
                    # real-valued counts: with s >= m every factor of s(s-1)...(s-m+1) is positive and the product is the only
                    # reading; with s <= m-1 "fewer than m copies are present" and the rate is zero.  Only the window m-1 < s < m
                    # (fewer than m copies, yet all factors positive) is left open by the statement and not asserted.
                    mult = Counter(ref.ma_multiset(r))
                    if any(m_ > 1 and m_ - 1 < pt["x"][s_] < m_ for s_, m_ in mult.items()):
                        C["skipped_real_falling_factorial"] += 1
                        continue
                exp = ref.rate(r, pt["x"], pdict, V, mode, t)
                if exp > 0 and not close(exp, ref.pval(r["fields"]["k"], pdict)):
                    state["nontrivial"] = True
                    C["nontrivial_evaluations"] += 1
                for route in ["object", "plain", "safe"] + (["direct"] if i in direct else []):
                    if route in ("object", "direct"):
                        g = got[(mode, route, i)]
                        e = exp
                    else:
                        g = float(got[(mode, route)][i])
                        e = exp
                        if route == "safe" and mode in ("stoch", "stochvol") and not full:
                            e = 0.0
                    C["evaluations"] += 1
                    cells[(cl if r["type"] != "massaction" else cl, mode, "object" if route == "direct" else route)] += 1
                    if not close(float(g), e):
                        key = "C01/%s%s:%s:%s" % ("massaction" if r["type"] == "massaction" else r["type"],
                                                   "-repeated" if repeats else "", mode,
                                                   "safe-interface" if route == "safe" else "rate-law")
                        if route == "safe" and len(need) == len(sp_list) and len(sp_list) > 0:
                            key += ":consumes-all-species"
                        if len(viol) < 6:
                            viol.append({"key": key, "msg": "%s reaction #%d %s mode=%s route=%s state=%s V=%s%s: got %r expected %r" % (
                                r["type"], i, r["fields"], mode, route, pt["x"], V, hist, float(g), e)})
                        C["mismatches"] += 1


def _isnum(v):
    try:
        float(v)
        return True
    except (TypeError, ValueError):
        return False


def aggregate(cases, records, tier, seed, run_more):
    cells = Counter()
    for r in records:
        if r and "cells" in r:
            for k, v in r["cells"].items():
                cells[k] += v
    want = [(ty, m, rt) for ty in TYPES for m in ref.MODES for rt in ("object", "plain", "safe")]
    mn = min(cells.get("|".join(w), 0) for w in want)
    return {"counters": {"min_cell": mn}, "evidence": {"cells_type_mode_route": dict(cells), "cells_required": len(want)}}

"""C13 - an imported SBML file has the semantics of the SBML document (documents built directly with libsbml)."""
import math
from collections import Counter
from vlib import util, ref, gen

PROPERTY = "C13"
COND_W = 16 * 2.220446049250313e-16 / 1e-10       # 16 eps of input sensitivity, expressed in units of the 1e-10 relative band
RULE = ("SBML L3v2 documents built directly with libsbml (never bioscrape's writer): one compartment of size 1, species with initial amount "
        "or initial concentration, global parameters, reactions with integer stoichiometries 1-3 and modifier species, kinetic laws over "
        "+ - * / ^ exp ln abs and numbers, local parameters colliding with a global / another reaction's local / nothing, 0-3 assignment rules "
        "(dependency order) and 0-3 rate rules on species (thorough: also on non-constant parameters) in every interleaving; documents with a "
        "libsbml consistency error are discarded; the imported model's initial values, global parameter values, stoichiometry, rule list and "
        "net derivative at 8 random states are compared with the harness's own evaluation of the document's ASTs; "
        "non-trivial = colliding local parameter, both kinds of rule, or a stoichiometry > 1; distinct by document digest")
ASSUMPTIONS = ["libsbml's reader, writer and AST API are trusted; formula semantics come from the harness's AST evaluator (vlib/sbmlref.py)",
               "documents that fail libsbml's consistency check (errors, not unit warnings) are discarded and counted"]
RUN_OPTS = {"batch_size": 15, "timeout_per_case": 30.0}
MINIMA = {"*": {"documents_imported": 100, "derivative_components_compared": 2000, "colliding_local_documents": 20, "rate_rule_documents": 20,
                "assignment_rule_documents": 20, "contract_evaluations": 100, "refusal_excess": 0}}


def law_ast(rnd, reac, mods, names, locals_):
    """names: available global parameter ids; locals_: dict of local ids (may shadow). Returns harness AST"""
    def par():
        pool = list(locals_) * 2 + list(names)
        return ["par", rnd.choice(pool)]
    sp_in = [s for s, n in reac] + list(mods)
    s = lambda: ["sp", rnd.choice(sp_in)] if sp_in else ["num", 1.0]
    form = rnd.randrange(9)
    if form >= 7 and len(sp_in) >= 2:
        # a power / product of a difference of two species: well conditioned as written, even for huge, nearly equal counts
        s1, s2 = rnd.sample(sp_in, 2)
        d = ["-", ["sp", s1], ["sp", s2]]
        return ["*", par(), ["^", d, ["num", 2.0]]] if form == 7 else ["*", par(), ["*", d, ["+", ["sp", s1], ["sp", s2]]]]
    if form >= 7:
        form = 0
    if form == 0 or not sp_in:
        a = par()
        for sname, n in reac:
            a = ["*", a, ["^", ["sp", sname], ["num", float(n)]] if n > 1 else ["sp", sname]]
        return a
    if form == 1:
        return ["/", ["*", par(), s()], ["+", par(), s()]]
    if form == 2:
        return ["*", ["*", par(), s()], ["exp", ["neg", ["*", ["num", float("%.2g" % rnd.uniform(0.01, 0.2))], s()]]]]
    if form == 3:
        return ["*", par(), ["log", ["+", ["num", 1], s()]]]
    if form == 4:
        return ["*", par(), ["abs", ["-", s(), par()]]]
    if form == 5:
        return ["+", ["*", par(), s()], ["/", par(), ["+", ["num", 2], ["^", s(), ["num", 2]]]]]
    return ["*", ["*", par(), s()], s()]


def gen_doc(rnd, thorough):
    nsp = rnd.randint(2, 6)
    ids = rnd.sample(["A", "B", "Cx", "Dm", "En", "F_2", "Gg", "Hh", "S", "N", "Q"], nsp)
    species = []
    for s in ids:
        v = float("%.4g" % rnd.uniform(0.5, 20)) if rnd.random() < 0.85 else 0.0
        u = rnd.random()
        if u < 0.3:
            # both attributes in the file: a non-zero amount (however small) wins, an amount of exactly 0 yields to the concentration
            a_ = rnd.choice([0.0, 0.0, 1e-9, 3e-12, 1e-8, 9.9e-9, 2e-7, float("%.4g" % rnd.uniform(0.5, 20))])
            species.append({"id": s, "amount": a_, "conc": float("%.4g" % rnd.uniform(0.5, 20))})
        else:
            species.append({"id": s, "amount": v} if u < 0.65 else {"id": s, "conc": v})
    gnames = rnd.sample(["kf", "kr", "Km", "vmax", "k", "k1", "alpha", "k_r1", "k_r2", "p"], rnd.randint(2, 6))
    params = {g: float("%.4g" % rnd.uniform(0.1, 5)) for g in gnames}
    nrx = rnd.randint(1, 4)
    # rule targets: species kept out of reactions
    n_as, n_rr = rnd.randint(0, 3), rnd.randint(0, 3)
    free = list(ids)
    rnd.shuffle(free)
    rule_species = free[: min(len(free) - 1, rnd.randint(0, 2) if (n_as + n_rr) else 0)]
    rx_species = [s for s in ids if s not in rule_species]
    reactions = []
    used_local = []
    for i in range(nrx):
        rid = "r%d" % (i + 1)
        nre = rnd.randint(0, 2)
        reac = []
        for s in rnd.sample(rx_species, min(nre, len(rx_species))):
            reac.append([s, rnd.choice([1, 1, 2, 3])])
        prods = []
        for s in rnd.sample(rx_species, min(rnd.randint(0, 2), len(rx_species))):
            prods.append([s, rnd.choice([1, 1, 2, 3])])
        if not reac and not prods:
            prods = [[rnd.choice(rx_species), 1]]
        # the same species referenced twice in one list (two <speciesReference> elements): the effective stoichiometry is the sum
        if reac and rnd.random() < 0.2:
            reac.append([rnd.choice(reac)[0], rnd.choice([1, 1, 2])])
        if prods and rnd.random() < 0.2:
            prods.append([rnd.choice(prods)[0], rnd.choice([1, 1, 2])])
        others = [s for s in ids if s not in [x[0] for x in reac] and s not in [x[0] for x in prods]]
        mods = rnd.sample(others, min(len(others), rnd.choice([0, 0, 1, 2])))
        locs = {}
        for _ in range(rnd.choice([0, 1, 1, 2])):
            kind = rnd.choice(["global", "other_local", "fresh", "fresh"])
            if kind == "global":
                lid = rnd.choice(gnames)
            elif kind == "other_local" and used_local:
                lid = rnd.choice(used_local)
            else:
                lid = rnd.choice(["kl", "kcat", "h", "kd", "k", "k1"])
            locs[lid] = float("%.4g" % rnd.uniform(0.1, 5))
        used_local += list(locs)
        reactions.append({"id": rid, "reactants": reac, "products": prods, "modifiers": mods, "locals": locs,
                          "law": law_ast(rnd, reac, mods, gnames, locs)})
    rules = []
    nonconst = []
    targets_used = set()
    avail_sp = list(rule_species)
    for _ in range(n_as):
        if avail_sp and rnd.random() < 0.6:
            var = avail_sp.pop()
        else:
            cand = [g for g in gnames if g not in targets_used]
            if not cand:
                continue
            var = rnd.choice(cand)
            nonconst.append(var)
        targets_used.add(var)
        # right-hand side over reaction species and globals that are not (later) rule targets -> dependency order holds trivially,
        # plus earlier assignment targets
        pool_sp = rx_species + [r["var"] for r in rules if r["kind"] == "assignment" and r["var"] in ids]
        pool_p = [g for g in gnames if g not in targets_used] + [r["var"] for r in rules if r["kind"] == "assignment" and r["var"] in gnames]
        a = ["+", ["*", ["num", float("%.3g" % rnd.uniform(0.2, 3))], ["sp", rnd.choice(pool_sp)]], ["par", rnd.choice(pool_p)] if pool_p else ["num", 1.0]]
        if rnd.random() < 0.4:
            a = ["/", a, ["+", ["num", 1], ["sp", rnd.choice(pool_sp)]]]
        rules.append({"kind": "assignment", "var": var, "ast": a})
    for _ in range(n_rr):
        if avail_sp:
            var = avail_sp.pop()
        elif thorough and rnd.random() < 0.3:
            cand = [g for g in gnames if g not in targets_used]
            if not cand:
                continue
            var = rnd.choice(cand)
            nonconst.append(var)
        else:
            continue
        targets_used.add(var)
        pool_sp = ids
        a = ["-", ["*", ["par", rnd.choice(gnames)], ["sp", rnd.choice(pool_sp)]], ["*", ["num", float("%.3g" % rnd.uniform(0.1, 2))], ["sp", rnd.choice(pool_sp)]]]
        rules.append({"kind": "rate", "var": var, "ast": a})
    # any interleaving of the two kinds that keeps the assignment rules in their relative (dependency) order
    order = list(range(len(rules)))
    asg = [i for i in order if rules[i]["kind"] == "assignment"]
    rrs = [i for i in order if rules[i]["kind"] == "rate"]
    rnd.shuffle(rrs)
    merged = []
    ai, ri = 0, 0
    while ai < len(asg) or ri < len(rrs):
        if ai < len(asg) and (ri >= len(rrs) or rnd.random() < 0.5):
            merged.append(asg[ai]); ai += 1
        else:
            merged.append(rrs[ri]); ri += 1
    rules = [rules[i] for i in merged]
    states = []
    for _ in range(8):
        states.append({s: (float(rnd.randint(0, 12)) if rnd.random() < 0.3 else float("%.5g" % rnd.uniform(0.1, 20))) for s in ids})
    for _ in range(2):
        # huge, nearly equal integer counts (exact in a double): a kinetic law has to be evaluated as it is written
        base = float(rnd.choice([10 ** 8, 3 * 10 ** 7, 2 ** 30]))
        states.append({s: base + float(rnd.randint(0, 9)) for s in ids})
    return {"species": species, "params": params, "nonconstant": sorted(set(nonconst)), "reactions": reactions, "rules": rules, "states": states}


def generate(tier, seed):
    rnd = util.rng(PROPERTY, tier, seed, "cases")
    n = 200 if tier == "quick" else 4000
    return [gen_doc(rnd, tier == "thorough") for _ in range(n)]


_rule_log = []


def child_setup():
    import icontract
    import bioscrape.sbmlutil as su

    def rules_counted(sbml_model, allreactions, result):
        n_as = sum(1 for r in sbml_model.getListOfRules() if r.getElementName() == "assignmentRule")
        n_rr = sum(1 for r in sbml_model.getListOfRules() if r.getElementName() == "rateRule")
        _rule_log.append((n_as, n_rr, len(result[0]), None))
        return True

    su.import_sbml_rules = icontract.ensure(rules_counted, error=AssertionError)(su.import_sbml_rules)


def build_document(doc):
    import libsbml as L
    from vlib import sbmlref
    d = L.SBMLDocument(3, 2)
    m = d.createModel()
    m.setId("harness_doc")
    c = m.createCompartment()
    c.setId("cell"); c.setConstant(True); c.setSize(1.0); c.setSpatialDimensions(3)
    for s in doc["species"]:
        x = m.createSpecies()
        x.setId(s["id"]); x.setCompartment("cell"); x.setConstant(False); x.setBoundaryCondition(False); x.setHasOnlySubstanceUnits(False)
        if "amount" in s:
            x.setInitialAmount(s["amount"])
        else:
            x.setInitialConcentration(s["conc"])
    for p, v in doc["params"].items():
        q = m.createParameter()
        q.setId(p); q.setValue(v); q.setConstant(p not in doc["nonconstant"])
    for r in doc["reactions"]:
        x = m.createReaction()
        x.setId(r["id"]); x.setReversible(False)
        for s, n in r["reactants"]:
            y = x.createReactant(); y.setSpecies(s); y.setStoichiometry(n); y.setConstant(True)
        for s, n in r["products"]:
            y = x.createProduct(); y.setSpecies(s); y.setStoichiometry(n); y.setConstant(True)
        for s in r["modifiers"]:
            y = x.createModifier(); y.setSpecies(s)
        kl = x.createKineticLaw()
        for lid, v in r["locals"].items():
            lp = kl.createLocalParameter()
            lp.setId(lid); lp.setValue(v)
        ast = L.parseL3Formula(sbmlref.to_l3(r["law"]))
        if ast is None:
            raise ValueError("harness formula did not parse: " + sbmlref.to_l3(r["law"]))
        kl.setMath(ast)
    for i, r in enumerate(doc["rules"]):
        x = m.createAssignmentRule() if r["kind"] == "assignment" else m.createRateRule()
        x.setVariable(r["var"])
        x.setMath(L.parseL3Formula(sbmlref.to_l3(r["ast"])))
    return d


def run_case(doc):
    import os, tempfile, shutil
    import numpy as np
    import libsbml as L
    from vlib import sbmlref
    from bioscrape.types import Model
    from bioscrape.simulator import ModelCSimInterface
    C = Counter()
    viol = util.ViolList()
    d = build_document(doc)
    d.checkConsistency()
    errs = [d.getError(i) for i in range(d.getNumErrors())]
    hard = [e for e in errs if e.getSeverity() >= L.LIBSBML_SEV_ERROR]
    if hard:
        C["documents_discarded_inconsistent"] += 1
        return {"viol": [], "counters": dict(C), "nontrivial": False, "discard": hard[0].getMessage()[:200]}
    tmp = tempfile.mkdtemp(prefix="c13-", dir="/var/tmp")
    try:
        path = os.path.join(tmp, "doc.xml")
        L.writeSBMLToFile(d, path)
        both = [s_ for s_ in doc["species"] if "amount" in s_ and "conc" in s_]
        if both:
            # libsbml's two setters un-set each other, so the second attribute is written into the XML text
            import re
            txt = open(path).read()
            for s_ in both:
                txt, n_ = re.subn(r'(<species\b[^>]*\bid="%s"[^>]*?)(/?>)' % re.escape(s_["id"]), lambda m_: '%s initialConcentration="%r"%s' % (m_.group(1), s_["conc"], m_.group(2)), txt, count=1)
                if n_ != 1:
                    return {"error": "harness: could not add initialConcentration to species %s" % s_["id"]}
            open(path, "w").write(txt)
            C["species_with_amount_and_concentration"] += len(both)
        # re-read the written file with libsbml: the reference is evaluated on what is actually in the file
        rd = L.readSBML(path)
        rm = rd.getModel()
        n0 = len(_rule_log)
        try:
            if len(doc["reactions"]) % 3 == 0:
                # the verbose reader (input_printout=True): same model, it only talks more
                import contextlib, io
                with contextlib.redirect_stdout(io.StringIO()):
                    M = Model(sbml_filename=path, sbml_warnings=False, input_printout=True)
                C["documents_imported_verbosely"] += 1
            else:
                M = Model(sbml_filename=path, sbml_warnings=False)
        except Exception as e:
            # an explicit refusal yields no model and therefore no wrong semantics; it is counted, and a run in which many
            # documents are refused is inconclusive (see aggregate)
            C["documents_refused"] += 1
            return {"viol": [], "counters": dict(C), "nontrivial": False, "refused": repr(e)[:200]}
        C["documents_imported"] += 1
        n_as = sum(1 for r in doc["rules"] if r["kind"] == "assignment")
        n_rr = len(doc["rules"]) - n_as
        if len(_rule_log) > n0:
            C["contract_evaluations"] += 1
            a, b, got_rules, _ = _rule_log[-1]
            if got_rules != n_as:
                viol.append({"key": "C13/rule-count", "msg": "contract on import_sbml_rules: %d assignment rules in the document, %d rule tuples returned" % (n_as, got_rules)})
        ids = [s["id"] for s in doc["species"]]
        coll = False
        gl = set(doc["params"])
        seen_local = set()
        for r in doc["reactions"]:
            for lid in r["locals"]:
                if lid in gl or lid in seen_local:
                    coll = True
                seen_local.add(lid)
        if coll:
            C["colliding_local_documents"] += 1
        if any(len(set(x[0] for x in r_[side])) < len(r_[side]) for r_ in doc["reactions"] for side in ("reactants", "products")):
            C["documents_with_duplicate_species_references"] += 1
        if n_rr:
            C["rate_rule_documents"] += 1
        if n_as:
            C["assignment_rule_documents"] += 1
        # initial values
        sd = M.get_species_dictionary()
        for s in doc["species"]:
            exp = s["amount"] if ("amount" in s and (s["amount"] != 0 or "conc" not in s)) else s["conc"]
            if s["id"] not in sd or float(sd[s["id"]]) != exp:
                viol.append({"key": "C13/initial-value", "msg": "species %s: imported initial value %r, document says %r" % (s["id"], sd.get(s["id"]), s)})
        pdct = M.get_parameter_dictionary()
        rate_param_targets = [r["var"] for r in doc["rules"] if r["kind"] == "rate" and r["var"] in doc["params"]]
        for p, v in doc["params"].items():
            if p in rate_param_targets:
                continue
            if p not in pdct or float(pdct[p]) != v:
                viol.append({"key": "C13/global-parameter-value", "msg": "global parameter %s: imported %r, document %r (locals: %r)" % (
                    p, pdct.get(p), v, [r["locals"] for r in doc["reactions"]])})
        for pn in rate_param_targets:
            # a rate rule on a (non-constant) parameter: however the importer represents the variable, it must start at the
            # parameter's value
            C["rate_rules_on_parameters"] += 1
            start = sd.get(pn, pdct.get(pn))
            if start is None or float(start) != doc["params"][pn]:
                viol.append({"key": "C13/rate-rule-on-parameter:initial-value", "msg": "parameter %s has value %r and a rate rule; the imported model starts it at %r" % (
                    pn, doc["params"][pn], start)})
        # stoichiometry by name (first len(reactions) columns)
        idx = M.get_species2index()
        U = M.py_get_update_array()
        for ri, r in enumerate(doc["reactions"]):
            exp = Counter()
            for s, n in r["products"]:
                exp[s] += n
            for s, n in r["reactants"]:
                exp[s] -= n
            for s in ids:
                if U[idx[s], ri] != exp.get(s, 0):
                    viol.append({"key": "C13/stoichiometry", "msg": "reaction %s species %s: imported %r, document %r" % (r["id"], s, U[idx[s], ri], exp.get(s, 0))})
        # rules
        rl = M.get_rules()
        as_targets = [r["var"] for r in doc["rules"] if r["kind"] == "assignment"]
        got_targets = [t[1]["equation"].split("=")[0].strip() for t in rl]
        if sorted(got_targets) != sorted(as_targets) or any(t[2] not in ("repeated", "repeat") for t in rl) or any(t[0] != "assignment" for t in rl):
            viol.append({"key": "C13/rule-list", "msg": "document assignment rules on %r (rate rules on %r); imported rules %r" % (
                as_targets, [r["var"] for r in doc["rules"] if r["kind"] == "rate"], [(t[0], t[1]["equation"][:30], t[2]) for t in rl])})
        # derivative at random states
        itf = ModelCSimInterface(M)
        itf.py_prep_deterministic_simulation()
        assigned = set(as_targets)
        p0 = np.array(M.get_parameter_values(), dtype=float).copy()
        for st in doc["states"]:
            if len(viol) > 4:
                break
            x = dict(st)
            p = dict(doc["params"])
            try:
                for r in rm.getListOfRules():
                    if r.getElementName() == "assignmentRule":
                        env = lambda nm: x[nm] if nm in x else p[nm]
                        v = sbmlref.ast_eval(r.getMath(), env)
                        if r.getVariable() in x:
                            x[r.getVariable()] = v
                        else:
                            p[r.getVariable()] = v
                dx = {s: 0.0 for s in ids}
                dp = {}
                dpmag = {}
                scale = {s: 0.0 for s in ids}
                for rx in rm.getListOfReactions():
                    kl = rx.getKineticLaw()
                    loc = {kl.getLocalParameter(i).getId(): kl.getLocalParameter(i).getValue() for i in range(kl.getNumLocalParameters())}
                    env = lambda nm: loc[nm] if nm in loc else (x[nm] if nm in x else p[nm])
                    rate = sbmlref.ast_eval(kl.getMath(), env)
                    # the band of a term: 1e-10 of its value plus 16 eps times its sensitivity to its inputs as the law is written
                    # (inputs computed by rules differ in the last bits between two correct evaluations); a re-arrangement of
                    # the law that is numerically worse than that (an expanded power of a difference) is outside the band
                    rmag = abs(rate) + COND_W * sbmlref.ast_cond(kl.getMath(), env)
                    for sr in rx.getListOfProducts():
                        dx[sr.getSpecies()] += sr.getStoichiometry() * rate
                        scale[sr.getSpecies()] += abs(sr.getStoichiometry() * rmag)
                    for sr in rx.getListOfReactants():
                        dx[sr.getSpecies()] -= sr.getStoichiometry() * rate
                        scale[sr.getSpecies()] += abs(sr.getStoichiometry() * rmag)
                for r in rm.getListOfRules():
                    if r.getElementName() == "rateRule":
                        env = lambda nm: x[nm] if nm in x else p[nm]
                        v = sbmlref.ast_eval(r.getMath(), env)
                        if r.getVariable() in dx:
                            dx[r.getVariable()] += v
                            scale[r.getVariable()] += abs(v) + COND_W * sbmlref.ast_cond(r.getMath(), env)
                        else:
                            dp[r.getVariable()] = v
                            dpmag[r.getVariable()] = abs(v) + COND_W * sbmlref.ast_cond(r.getMath(), env)
            except ref.Undefined:
                C["skipped_undefined"] += 1
                continue
            xv = np.zeros(len(idx))
            for s, i in idx.items():
                if s in st:
                    xv[i] = st[s]
                elif s in doc["params"]:
                    xv[i] = doc["params"][s]          # a rate rule on a parameter is represented as a species by the importer
            M.set_params({k: v for k, v in doc["params"].items()})
            itf.py_apply_repeated_rules(xv, 0.0, True)
            got = np.full(len(idx), 7e77)
            itf.py_calculate_deterministic_derivative(xv, got, 0.0)
            for s in ids:
                if s in assigned:
                    continue
                C["derivative_components_compared"] += 1
                if math.isfinite(dx[s]) and not (abs(got[idx[s]] - dx[s]) <= 1e-10 * max(scale[s], abs(dx[s]), 1e-300) + 1e-14):
                    mech = "rate-rule" if any(r["kind"] == "rate" for r in doc["rules"]) else ("local-parameter" if coll else "kinetic-law")
                    if any(r["kind"] == "rate" and r["var"] in doc["params"] for r in doc["rules"]):
                        mech = "rate-rule-on-parameter"
                    viol.append({"key": "C13/derivative:%s" % mech,
                                 "msg": "d%s/dt: imported model %r, document (stoichiometry x kinetic law + rate rules) %r at state %s; rules %r; locals %r" % (
                                     s, got[idx[s]], dx[s], st, [(r["kind"], r["var"]) for r in doc["rules"]], [r["locals"] for r in doc["reactions"]])})
                    break
            for pn, v in dp.items():
                C["derivative_components_compared"] += 1
                if pn not in idx or (math.isfinite(v) and not (abs(got[idx[pn]] - v) <= 1e-10 * max(abs(v), dpmag.get(pn, 0.0), 1e-300) + 1e-14)):
                    viol.append({"key": "C13/derivative:rate-rule-on-parameter", "msg": "rate rule on parameter %s: document rate %r, imported %r" % (
                        pn, v, got[idx[pn]] if pn in idx else None)})
        nontrivial = coll or (n_as and n_rr) or any(n > 1 for r in doc["reactions"] for s, n in r["reactants"] + r["products"])
        return {"viol": viol[:5], "counters": dict(C), "nontrivial": bool(nontrivial)}
    finally:
        shutil.rmtree(tmp, ignore_errors=True)


def aggregate(cases, records, tier, seed, run_more):
    ref_ = [r.get("refused") for r in records if r and r.get("refused")]
    imp = sum(1 for r in records if r and r.get("counters", {}).get("documents_imported"))
    out = {"evidence": {"refusals": sorted(set(ref_))[:10], "documents_refused": len(ref_)}, "counters": {}}
    if len(ref_) > 0.25 * max(1, imp + len(ref_)):
        out["counters"]["refusal_excess"] = -1
    return out

"""C09 - rules hold on every reported row and fire on their schedule."""
import math
from collections import Counter
from vlib import util, ref, gen, spec as specmod

PROPERTY = "C09"
RULE = ("models combining chained repeated rules (additive -> assignment -> assignment, species and parameter targets), guard rules "
        "(Heaviside gate on the only production; rule forcing a stored rate constant to 0), a rule scheduled at an exact grid time or at "
        "'start', a dt counter rule and an ode rule (constant or conserved-species rate), on top of no / slow / fast reactions (counter "
        "species prove >=10 firings per step in the fast class); dyadic grids from 0; modes: deterministic (row consistency only), SSA, safe, "
        "volume, delay via py_simulate_model, SSASimulator class, and py_SimulateSingleCell on a LineageModel built from the same spec; "
        "oracles: each repeated assignment rule re-evaluated on every row by the reference interpreter, guard invariants, schedule "
        "before/after, dt counter +1 per row from row 1, ode target +rate*dt per row; non-trivial = >=2 chained rules or a rule with firing "
        "reactions; distinct by spec x mode x seed")
ASSUMPTIONS = ["reference rule interpreter / expression evaluator from vlib/ref.py", "scheduled times are exact elements of a dyadic grid",
               "how often a dt rule runs at the initial instant is not asserted"]
RUN_OPTS = {"batch_size": 6, "timeout_per_case": 60.0}
MINIMA = {"*": {"rows_checked": 5000, "lineage_rows_checked": 50, "fast_reaction_rows_checked": 50, "schedule_checks": 50, "dt_counter_steps": 500,
                "ode_steps": 500, "guard_rows": 500}}
MODES = ["det", "ssa", "safe", "volume", "delay", "delay_volume", "safe_delay_volume", "ssa_class", "lineage", "lineage_safe"]


def gen_case(rnd, i):
    dt = 2.0 ** rnd.randint(-5, -2)
    if i % 4 == 3:
        # a decimal step: the grid times k*dt carry binary round-off (3*0.1 = 0.30000000000000004) and a scheduled time that
        # is an exact element of the grid needs all 17 digits
        dt = rnd.choice([0.1, 0.3, 0.05, 0.7])
    n = rnd.randint(20, 120)
    speed = ["none", "slow", "fast"][i % 3]
    params = {}
    species = ["X", "Y", "Tt", "U", "W"]
    x0 = {"X": rnd.randint(2, 9), "Y": rnd.randint(0, 5), "Tt": 77.0, "U": -3.0, "W": 0.5}
    rx, rules = [], []
    feats = []
    if speed != "none":
        kk = gen.nice(rnd, 0.2, 1.0) if speed == "slow" else float("%.4g" % (rnd.uniform(4, 12) / dt / 4))
        params["kxy"] = kk
        params["kyx"] = float("%.4g" % (kk * rnd.uniform(0.5, 1.5)))
        rx.append({"type": "massaction", "reactants": ["X"], "products": ["Y"], "fields": {"k": "kxy"}})
        rx.append({"type": "massaction", "reactants": ["Y"], "products": ["X"], "fields": {"k": "kyx"}})
    # chained repeated rules
    params["c_u"] = gen.nice(rnd, 0.5, 4)
    rules.append({"type": "additive", "target": "Tt", "sources": ["X", "Y"], "frequency": "repeated"})
    rules.append({"type": "assignment", "target": "U", "ast": ["+", ["*", ["num", 2], ["sp", "Tt"]], ["par", "c_u"]], "frequency": "repeated"})
    if rnd.random() < 0.7:
        params["q"] = 1.0
        rules.append({"type": "assignment", "target": "q", "ast": ["+", ["num", 1], ["*", ["num", 0.5], ["sp", "X"]]], "frequency": "repeated"})
        rules.append({"type": "assignment", "target": "W", "ast": ["/", ["sp", "U"], ["par", "q"]], "frequency": "repeated"})
        feats.append("param-chain")
    else:
        rules.append({"type": "assignment", "target": "W", "ast": ["/", ["sp", "U"], ["+", ["num", 1], ["sp", "X"]]], "frequency": "repeated"})
    if rnd.random() < 0.6:
        # Heaviside gate on the only production of A
        species.append("A")
        x0["A"] = rnd.randint(0, 3)
        params["g"] = 1.0
        params["kp"] = float("%.4g" % (rnd.uniform(2, 10) / dt / 8))
        rules.append({"type": "assignment", "target": "g", "ast": ["step", ["-", ["num", 4.5], ["sp", "A"]]], "frequency": "repeated"})
        rx.append({"type": "general", "reactants": [], "products": ["A"], "fields": {}, "ast": ["*", ["par", "kp"], ["par", "g"]]})
        feats.append("gate")
    if rnd.random() < 0.5:
        species += ["F1", "F2"]
        x0["F1"], x0["F2"] = rnd.randint(3, 9), 0
        params["kz"] = 100.0
        rules.append({"type": "assignment", "target": "kz", "ast": ["num", 0.0], "frequency": "repeated"})
        rx.append({"type": "massaction", "reactants": ["F1"], "products": ["F2"], "fields": {"k": "kz"}})
        feats.append("zero")
    has_bc = rnd.random() < 0.7
    if rnd.random() < 0.7:
        species.append("S0")
        x0["S0"] = float(rnd.randint(1, 9))
        kT = rnd.randint(1, n - 3)
        cval = float("%.4g" % rnd.uniform(10, 50))
        # the scheduled time is given as text, as a number, or as "start"; the first grid point (time 0) is a scheduled time too
        u_ = rnd.random()
        if u_ < 0.15:
            freq = "start"
        elif u_ < 0.3:
            kT = 0
            freq = rnd.choice([0.0, 0, "0.0", "0"])
        elif u_ < 0.6:
            freq = kT * dt            # a float
        else:
            freq = repr(kT * dt)
        copy_counter = has_bc and freq != "start" and kT > 0 and rnd.random() < 0.6
        if copy_counter:
            # the scheduled rule copies the running dt counter: a rule that keeps firing after its time would keep changing S0
            rules.append({"type": "assignment", "target": "S0", "ast": ["+", ["sp", "Bc"], ["num", cval]], "frequency": freq})
        elif kT == 0 and freq != "start":
            # scheduled at the first grid point with a right-hand side that reads a reacting species: the rule fires once, at the
            # initial state, and S0 keeps that value (a rule mistaken for a repeated one would keep following X)
            rules.append({"type": "assignment", "target": "S0", "ast": ["+", ["sp", "X"], ["num", cval]], "frequency": freq})
            cval = float(x0["X"]) + cval
        else:
            rules.append({"type": "assignment", "target": "S0", "ast": ["num", cval], "frequency": freq})
        feats.append("schedule")
        sched = {"T": 0.0 if (freq == "start" or kT == 0) else kT * dt, "c": cval, "init": x0["S0"], "copy_counter": copy_counter, "k": kT}
    else:
        sched = None
    if has_bc:
        species.append("Bc")
        x0["Bc"] = float(rnd.randint(0, 5))
        rules.append({"type": "assignment", "target": "Bc", "ast": ["+", ["sp", "Bc"], ["num", 1]], "frequency": "dt"})
        feats.append("dtcounter")
    ode = None
    if rnd.random() < 0.7:
        species.append("Ao")
        x0["Ao"] = float("%.4g" % rnd.uniform(0, 5))
        params["r_o"] = gen.nice(rnd, 0.1, 3)
        if rnd.random() < 0.5:
            ast = ["par", "r_o"]
            rate = params["r_o"]
        else:
            ast = ["*", ["par", "r_o"], ["+", ["sp", "X"], ["sp", "Y"]]]
            rate = params["r_o"] * (x0["X"] + x0["Y"])
        rules.append({"type": "ode", "target": "Ao", "ast": ast})
        ode = {"rate": rate}
        feats.append("ode")
    if speed == "fast":
        species.append("Nf")
        x0["Nf"] = 0
        params["kf"] = float("%.4g" % (rnd.uniform(15, 40) / dt))
        rx.append({"type": "massaction", "reactants": [], "products": ["Nf"], "fields": {"k": "kf"}})
    if rnd.random() < 0.65:
        # declaration order: the chained repeated rules keep their relative (dependency) order, every other rule - the gate,
        # the scheduled rule, the dt counter, the ode rule - is independent of them and may be declared anywhere in between
        chain_targets = ("Tt", "U", "q", "W")
        chain = [r for r in rules if r["target"] in chain_targets]
        others = [r for r in rules if r["target"] not in chain_targets]
        rnd.shuffle(others)
        merged = []
        while chain or others:
            if chain and (not others or rnd.random() < len(chain) / float(len(chain) + len(others))):
                merged.append(chain.pop(0))
            else:
                merged.append(others.pop(0))
        rules = merged
        feats.append("shuffled-declaration-order")
    sp = {"species": species, "x0": x0, "params": params, "reactions": rx, "rules": rules}
    return {"spec": sp, "dt": dt, "n": n, "speed": speed, "feats": feats, "sched": sched, "ode": ode,
            "seeds": [rnd.getrandbits(30) + 1 for _ in range(2)]}


SANITIZE_TIERS = ("thorough",)


def sanitize_subset(cases):
    return cases[:80]


def generate(tier, seed):
    rnd = util.rng(PROPERTY, tier, seed, "cases")
    n = 60 if tier == "quick" else 1500
    cases = []
    for i in range(n):
        c = gen_case(rnd, i)
        if tier == "thorough":
            c["seeds"] = c["seeds"] + [rnd.getrandbits(30) + 1 for _ in range(3)]
        cases.append(c)
    return cases


def simulate(mode, M, LM, tp, dt, seed):
    import numpy as np
    from bioscrape.simulator import py_simulate_model, ModelCSimInterface, SSASimulator
    import bioscrape.random as brandom
    brandom.py_seed_random(seed)
    if mode == "det":
        return np.array(py_simulate_model(tp.copy(), Model=M, stochastic=False, return_dataframe=False).py_get_result())
    if mode == "ssa":
        return np.array(py_simulate_model(tp.copy(), Model=M, stochastic=True, return_dataframe=False).py_get_result())
    if mode == "safe":
        return np.array(py_simulate_model(tp.copy(), Model=M, stochastic=True, safe=True, return_dataframe=False).py_get_result())
    if mode == "volume":
        return np.array(py_simulate_model(tp.copy(), Model=M, stochastic=True, volume=2.0, return_dataframe=False).py_get_result())
    if mode == "delay":
        return np.array(py_simulate_model(tp.copy(), Model=M, stochastic=True, delay=True, return_dataframe=False).py_get_result())
    if mode in ("delay_volume", "safe_delay_volume"):
        return np.array(py_simulate_model(tp.copy(), Model=M, stochastic=True, delay=True, volume=2.0, safe=(mode == "safe_delay_volume"),
                                          return_dataframe=False).py_get_result())
    if mode == "ssa_class":
        itf = ModelCSimInterface(M)
        itf.py_set_dt(dt)
        return np.array(SSASimulator().py_simulate(itf, tp.copy()).py_get_result())
    from bioscrape.lineage import py_SimulateSingleCell
    res = py_SimulateSingleCell(tp.copy(), Model=LM, return_dataframes=False, safe=(mode == "lineage_safe"))
    return np.array(res.py_get_result())


def run_case(case):
    import numpy as np
    from bioscrape.lineage import LineageModel
    C = Counter()
    viol = util.ViolList()
    sp = case["spec"]
    dt, n = case["dt"], case["n"]
    tp = dt * np.arange(n)
    M = specmod.build_model(sp, "ctor")
    LM = specmod.build_model(sp, "ctor", cls=LineageModel)
    species = M.get_species_list()
    idx = M.get_species2index()
    lidx = LM.get_species2index()
    nontrivial_n = 0
    p0 = dict(sp["params"])

    def bad(key, mode, msg):
        if len(viol) < 12:
            k_ = "C09/%s:%s" % (key, "lineage" if mode.startswith("lineage") else ("deterministic" if mode == "det" else mode.replace("_class", "")))
            if dt * 1024 != int(dt * 1024) and mode in ("volume", "delay_volume", "safe_delay_volume", "lineage", "lineage_safe") and key in ("dt-rule-count", "ode-rule-step", "scheduled-rule-missed"):
                # mechanism (known finding): the volume-aware and lineage simulators keep their own dt clock by repeated addition; with a step
                # that is not exactly representable it drifts off the reported grid k*dt
                k_ = "C09/volume-dt-clock-drift:decimal-step"
            viol.append({"key": k_, "msg": "mode=%s dt=%g n=%d reactions=%s: %s" % (mode, dt, n, case["speed"], msg)})

    for mode in MODES:
        for seed in (case["seeds"][:1] if mode == "det" else case["seeds"]):
            try:
                X = simulate(mode, M, LM, tp, dt, seed)
            except Exception as e:
                bad("simulation-raises", mode, "simulation raised %r" % (e,))
                continue
            # parameters must be restorable for the next run: rules that assign parameters change them by design
            M.set_params(p0)
            LM.set_params(p0)
            ix = lidx if mode.startswith("lineage") else idx
            if X.shape != (n, len(species)):
                bad("shape", mode, "result shape %s, expected %s" % (X.shape, (n, len(species))))
                continue
            col = lambda s: X[:, ix[s]]
            C["rows_checked"] += n
            if mode.startswith("lineage"):
                C["lineage_rows_checked"] += n
            # 1. repeated assignment rules hold on every row (declaration order, reference interpreter)
            for i in range(n):
                x = {s: float(X[i, ix[s]]) for s in species}
                p = dict(p0)
                okrow = True
                for r in sp["rules"]:
                    if r.get("frequency", "repeated") != "repeated" or r["type"] == "ode":
                        continue
                    if r["type"] == "additive":
                        v = sum(x[s] for s in r["sources"])
                    else:
                        v = ref.ev(r["ast"], x, p, tp[i], 2.0 if mode == "volume" else 1.0)
                    if r["target"] in p and r["target"] not in x:
                        p[r["target"]] = v
                        continue
                    if math.isfinite(v) and not (abs(x[r["target"]] - v) <= 1e-12 * max(abs(v), 1.0)):
                        bad("rule-not-satisfied", mode, "row %d (t=%g): rule for %s gives %r on this row but the row holds %r" % (i, tp[i], r["target"], v, x[r["target"]]))
                        okrow = False
                        break
                if not okrow:
                    break
            if mode == "det":
                continue
            fast_ok = True
            if case["speed"] == "fast":
                dN = np.diff(col("Nf"))
                fast_ok = bool((dN[1:] >= 10).all()) if len(dN) > 1 else False
                if fast_ok:
                    C["fast_reaction_rows_checked"] += n
            # 2. guards
            if "gate" in case["feats"]:
                C["guard_rows"] += n
                if (col("A") > 5).any():
                    bad("rate-ignores-rule-updated-parameter", mode, "gate g=Heaviside(4.5-A) on the only production of A, but a row shows A=%r" % float(col("A").max()))
                elif col("A")[-1] < 5 and tp[-1] * sp["params"]["kp"] > 60:
                    bad("rate-ignores-rule-updated-parameter", mode, "gated production never reached its cap: A ends at %r" % float(col("A")[-1]))
            if "zero" in case["feats"]:
                C["guard_rows"] += n
                if not (np.all(col("F1") == col("F1")[0]) and np.all(col("F2") == 0)):
                    bad("rate-ignores-rule-updated-parameter", mode, "rule kz=0 gates F1->F2 (stored kz=100) but F1 changed: %r -> %r" % (col("F1")[0], col("F1")[-1]))
            # 3. schedule
            if case["sched"]:
                sc = case["sched"]
                C["schedule_checks"] += 1
                s0 = col("S0")
                before = s0[tp < sc["T"]]
                after = s0[tp > sc["T"]]
                if len(before) and not np.all(before == sc["init"]):
                    bad("scheduled-rule-early", mode, "rule S0=%r scheduled at t=%g changed a row before its time: %r" % (sc["c"], sc["T"], list(before[before != sc["init"]][:3])))
                if sc.get("copy_counter"):
                    bc = col("Bc")
                    allowed = set(float(v) + sc["c"] for v in bc[max(sc["k"] - 1, 0): sc["k"] + 3])
                    if len(after) and not (np.all(after == after[0]) and float(after[0]) in allowed):
                        bad("scheduled-rule-missed", mode, "rule S0=Bc+%r scheduled at t=%g: rows after it are %r..., expected one constant value among %r" % (
                            sc["c"], sc["T"], list(after[:4]), sorted(allowed)))
                elif len(after) and not np.all(after == sc["c"]):
                    bad("scheduled-rule-missed", mode, "rule S0=%r scheduled at t=%g does not govern the rows after it: %r" % (sc["c"], sc["T"], list(after[after != sc["c"]][:3])))
            # 4. dt counter
            if "dtcounter" in case["feats"]:
                d = np.diff(col("Bc"))[1:]
                C["dt_counter_steps"] += len(d)
                if not np.all(d == 1):
                    j = int(np.argmax(d != 1)) + 1
                    bad("dt-rule-count", mode, "dt counter advanced by %r between rows %d and %d (expected 1)" % (float(d[j - 1]), j, j + 1))
            # 5. ode rule
            if case["ode"]:
                d = np.diff(col("Ao"))[1:]
                want = case["ode"]["rate"] * dt
                C["ode_steps"] += len(d)
                if not np.all(np.abs(d - want) <= 1e-9 * abs(want) + 1e-12):
                    j = int(np.argmax(np.abs(d - want) > 1e-9 * abs(want) + 1e-12)) + 1
                    bad("ode-rule-step", mode, "ode target advanced by %r between rows %d and %d, rate*dt = %r" % (float(d[j - 1]), j, j + 1, want))
            nontrivial_n += 1
    return {"viol": viol, "counters": dict(C), "nontrivial": nontrivial_n > 0, "nontrivial_n": nontrivial_n}

"""C03 - stoichiometry and net rate equations follow the reaction list."""
import itertools, math
from collections import Counter
from vlib import util, ref, gen, spec as specmod

PROPERTY = "C03"
RULE = ("reaction lists of 1-6 reactions (0-4 reactants/products with repeats, catalysts with unequal multiplicities, empty sides, "
        "every propensity type, optional delayed reactants/products) built in several species declaration orders (all permutations "
        "for <=4 species, else 24 random ones) through constructor / implicit / incremental / initial-condition-dict routes; the update "
        "and delay-update arrays are compared by species name with products-minus-reactants, the reported derivative with "
        "sum_r (S+Sd)[s,r]*rate_r at 10 states/times; negative cases leave one named parameter without a value and must fail no later "
        "than initialisation; non-trivial = repeated species, catalyst or delayed part; distinct by spec x declaration order")
ASSUMPTIONS = ["reference rate laws of vlib/ref.py (C03 is asserted only where the per-reaction rates agree with them)"]
RUN_OPTS = {"batch_size": 10, "timeout_per_case": 30.0}
MINIMA = {"*": {"matrix_entries_compared": 2000, "derivative_components_compared": 2000, "negative_cases": 20, "orders_built": 100, "models_built_after_refused_calls": 50}}


def gen_case(rnd, tier):
    nsp = rnd.randint(2, 6)
    species = rnd.sample(gen.SPECIES_POOL, nsp)
    params = {}
    rx = [gen.random_reaction(rnd, species, params, "r%d" % i) for i in range(rnd.randint(1, 6))]
    allsp = ref.all_species({"species": [], "reactions": rx})
    for s in species:
        if s not in allsp:
            allsp.append(s)
    maxperm = 6 if tier == "quick" else 24
    if len(allsp) <= 4:
        perms = list(itertools.permutations(allsp))
        if len(perms) > maxperm:
            perms = rnd.sample(perms, maxperm)
    else:
        perms = []
        for _ in range(maxperm):
            p = list(allsp)
            rnd.shuffle(p)
            perms.append(tuple(p))
    pts = []
    for _ in range(10):
        pts.append({"x": {s: (float(rnd.randint(0, 8)) if rnd.random() < 0.4 else float("%.5g" % rnd.uniform(0, 20))) for s in allsp},
                    "t": float("%.3g" % rnd.uniform(0, 30))})
    case = {"reactions": rx, "params": params, "x0": {s: rnd.randint(0, 9) for s in allsp}, "rules": [], "perms": [list(p) for p in perms],
            "points": pts, "allsp": allsp}
    if rnd.random() < 0.5:
        # refused create_reaction calls interleaved with the valid ones (incremental and icd routes)
        case["poison"] = [[rnd.randint(0, len(rx) - 1), rnd.choice(["hill_s1", "prophill_d", "ma_species", "hill_delay", "delay_param_species_name", "new_species_bad_delay", "unknown_delay_type"])]
                          for _ in range(rnd.randint(1, 2))]
    named = sorted(params)
    if named and rnd.random() < 0.5:
        case["missing"] = rnd.choice(named)
    return case


def generate(tier, seed):
    rnd = util.rng(PROPERTY, tier, seed, "cases")
    n = 300 if tier == "quick" else 6000
    return [gen_case(rnd, tier) for _ in range(n)]


def run_case(case):
    import numpy as np
    from bioscrape.types import Model
    from bioscrape.simulator import ModelCSimInterface, py_simulate_model
    C = Counter()
    viol = util.ViolList()
    S, Sd = ref.stoich(case)
    nontrivial = False
    for r, s_, sd_ in zip(case["reactions"], S, Sd):
        if (max(Counter(r["reactants"]).values() or [0]) > 1 or set(r["reactants"]) & set(r["products"]) or r.get("delay")):
            nontrivial = True
    routes = ["ctor", "implicit", "incremental", "icd", "incremental_implicit"]
    for pi, perm in enumerate(case["perms"]):
        route = routes[pi % 5]
        sp = dict(case)
        if route in ("implicit", "incremental_implicit"):
            # species that occur as reactants/products are declared by the reactions themselves; species that occur
            # only inside a rate law have to be declared (bioscrape refuses them otherwise, which is a legal rejection)
            inrx = set(ref.all_species({"species": [], "reactions": case["reactions"]}))
            inrate = set()
            for r in case["reactions"]:
                if r["type"] == "general":
                    inrate |= ref.names(r["ast"])[0]
                elif r["type"] != "massaction":
                    inrate |= {r["fields"]["s1"], r["fields"].get("d", r["fields"]["s1"])}
            sp["species"] = [s for s in perm if s not in inrx or s in inrate]
        else:
            sp["species"] = list(perm)
        try:
            M = specmod.build_model(sp, "ctor" if route == "implicit" else route)
            if sp.get("poison") and route in ("incremental", "icd", "incremental_implicit"):
                C["models_built_after_refused_calls"] += 1
        except specmod.PoisonAccepted:
            C["poison_accepted"] += 1
            continue
        except Exception as e:
            viol.append({"key": "C03/build-refused", "msg": "valid model refused (%s route, order %s): %r" % (route, perm, e)})
            continue
        C["orders_built"] += 1
        idx = M.get_species2index()
        # a refused call may leave the species it mentioned behind (names zz_*): they take part in nothing
        junk = sorted(s_ for s_ in idx if s_.startswith("zz_"))
        if set(idx) - set(junk) != set(case["allsp"]):
            viol.append({"key": "C03/species-set", "msg": "species set %s != %s" % (sorted(idx), sorted(case["allsp"]))})
            continue
        if sorted(idx.values()) != list(range(len(idx))):
            viol.append({"key": "C03/species-index-collision", "msg": "route %s: species indices are not a bijection onto 0..n-1: %r" % (route, dict(idx))})
            continue
        U, Ud = M.py_get_update_array(), M.py_get_delay_update_array()
        for s_ in junk:
            if np.any(U[idx[s_]] != 0) or np.any(Ud[idx[s_]] != 0):
                viol.append({"key": "C03/immediate-stoichiometry", "msg": "route %s: species %s, mentioned only by a refused call, has stoichiometry %r / %r" % (
                    route, s_, list(U[idx[s_]]), list(Ud[idx[s_]]))})
        if U.shape != (len(idx), len(case["reactions"])) or Ud.shape != U.shape:
            viol.append({"key": "C03/matrix-shape", "msg": "update array shape %s for %d species x %d reactions" % (U.shape, len(idx), len(case["reactions"]))})
            continue
        for ri in range(len(case["reactions"])):
            for s, i in idx.items():
                C["matrix_entries_compared"] += 2
                if U[i, ri] != S[ri].get(s, 0):
                    viol.append({"key": "C03/immediate-stoichiometry", "msg": "route %s order %s: update[%s, r%d]=%r, products-reactants=%r (%s -> %s)" % (
                        route, perm, s, ri, U[i, ri], S[ri].get(s, 0), case["reactions"][ri]["reactants"], case["reactions"][ri]["products"])})
                if Ud[i, ri] != Sd[ri].get(s, 0):
                    viol.append({"key": "C03/delayed-stoichiometry", "msg": "route %s order %s: delay_update[%s, r%d]=%r, expected %r" % (
                        route, perm, s, ri, Ud[i, ri], Sd[ri].get(s, 0))})
        if viol:
            break
        itf = ModelCSimInterface(M)
        itf.py_prep_deterministic_simulation()
        for pt in case["points"][: (10 if pi < 2 else 3)]:
            x = specmod.state_vec(M, pt["x"])
            try:
                expr = ref.rates(case, pt["x"], case["params"], 1.0, "det", pt["t"])
                exp = ref.rhs(case, pt["x"], case["params"], pt["t"])
            except ref.Undefined:
                C["skipped_undefined"] += 1
                continue
            got_r = itf.py_compute_propensities(x.copy(), pt["t"])
            # The derivative is assembled from the reactions' own rates: the expected value uses the rates the interface
            # reports (so floating-point differences inside a rate law, e.g. sympy re-ordering a general rate, do not enter),
            # and is asserted only where those rates agree with the reference rate laws (a rate-law defect belongs to C01/C02).
            if any(not (abs(float(g) - e) <= 1e-7 * max(1.0, abs(e))) for g, e in zip(got_r, expr)):
                C["rate_mismatch_skipped"] += 1
                continue
            dx = np.full(len(idx), 12345.0)
            itf.py_calculate_deterministic_derivative(x.copy(), dx, pt["t"])
            for s, i in idx.items():
                terms = [(S[ri].get(s, 0) + Sd[ri].get(s, 0)) * float(got_r[ri]) for ri in range(len(expr))]
                want = math.fsum(terms)
                scale = sum(abs(t_) for t_ in terms)
                C["derivative_components_compared"] += 1
                if not (abs(dx[i] - want) <= 1e-13 * max(scale, 1e-300) + 1e-300):
                    viol.append({"key": "C03/derivative", "msg": "route %s order %s: d%s/dt=%r expected sum (S+Sd)*rate = %r at %s t=%s" % (route, perm, s, dx[i], want, pt["x"], pt["t"])})
                    break
        if len(viol) > 4:
            break
    # negative case: one named parameter has no value
    if "missing" in case:
        sp = dict(case)
        sp["species"] = list(case["perms"][0])
        sp["params"] = {k: v for k, v in case["params"].items() if k != case["missing"]}
        C["negative_cases"] += 1
        outcomes = {}
        try:
            specmod.build_model(sp, "ctor")
            outcomes["ctor"] = "built"
        except Exception as e:
            outcomes["ctor"] = "raised"
        for nm in ("interface", "simulate", "simulate_stochastic"):
            try:
                M = specmod.build_model(sp, "ctor", initialize=False)
                if nm == "interface":
                    ModelCSimInterface(M)
                else:
                    res = py_simulate_model(np.linspace(0, 1, 5), Model=M, stochastic=(nm != "simulate"))
                outcomes[nm] = "returned"
            except Exception as e:
                outcomes[nm] = "raised"
        for nm, o in outcomes.items():
            if o != "raised":
                viol.append({"key": "C03/valueless-parameter-accepted", "msg": "parameter %s has no value but route %s %s" % (case["missing"], nm, o)})
    return {"viol": viol[:6], "counters": dict(C), "nontrivial": nontrivial, "nontrivial_n": C["orders_built"] if nontrivial else 0}

"""Child-side helpers shared by the distributional monitors (C05, C10 zero delay, C11 constant volume)."""
import numpy as np
from collections import Counter
from . import ref, stats, util


def safe_rates(spec, species, Smat, Sdmat):
    """reference propensities with the safe-mode clause: 0 without the full complement of reactants"""
    def f(sp_, xd, p, V, mode, t):
        rs = ref.rates(sp_, xd, p, V, mode, t)
        for r in range(len(rs)):
            for si, s in enumerate(species):
                a_, b_ = Smat[si, r], Sdmat[si, r]
                if a_ < 0 or b_ < 0:
                    n_ = -(a_ + b_) if (a_ < 0 and b_ < 0) else -min(a_, b_)
                    if xd[s] < n_:
                        rs[r] = 0.0
        return rs
    return f


def build_reference(spec, x0, tp, mode="stoch", V=1.0, cap=None, max_states=1500, ratefn=None):
    """Reachable set, generator and marginals/transition kernels at the grid times."""
    from scipy.linalg import expm
    sp = ref.all_species(spec)
    S, Sd = ref.stoich(spec)
    net = []
    for i in range(len(spec["reactions"])):
        c = Counter(S[i])
        c.update(Sd[i])
        net.append([c.get(s, 0) for s in sp])
    start = tuple(int(x0.get(s, 0)) for s in sp)
    index = {start: 0}
    order = [start]
    trans = []
    q = [start]
    p = spec["params"]
    while q:
        nxt = []
        for st in q:
            xd = dict(zip(sp, st))
            rs = ratefn(spec, xd, p, V, mode, 0.0) if ratefn else ref.rates(spec, xd, p, V, mode, 0.0)
            for ri, r in enumerate(rs):
                if r <= 0:
                    continue
                ns = tuple(a + b for a, b in zip(st, net[ri]))
                if any(v < 0 for v in ns):
                    raise OverflowError("network leaves the non-negative domain")
                if cap is not None and any(v > cap for v in ns):
                    trans.append((index[st], -1, r))
                    continue
                if ns not in index:
                    if len(order) >= max_states:
                        raise OverflowError("state space too large")
                    index[ns] = len(order)
                    order.append(ns)
                    nxt.append(ns)
                trans.append((index[st], index[ns], r))
        q = nxt
    n = len(order)
    Q = np.zeros((n + 1, n + 1))
    for i, j, r in trans:
        jj = n if j == -1 else j
        Q[i, jj] += r
        Q[i, i] -= r
    marg = []
    kern = []
    prev_t = 0.0
    pvec = np.zeros(n + 1)
    pvec[0] = 1.0
    cache = {}
    for t in tp:
        d = round(t - prev_t, 12)
        if d not in cache:
            cache[d] = expm(Q * d)
        K = cache[d]
        pvec = pvec @ K
        marg.append(pvec.copy())
        kern.append(K)
        prev_t = t
    return {"species": sp, "states": order, "index": index, "Q": Q, "marg": marg, "kern": kern, "n": n}


def encode(X, refd):
    """X: (runs, T, nsp) integer-valued array in the model's species order `cols`; returns state indices (runs, T), -1 unknown"""
    raise NotImplementedError


def state_indices(X, cols, refd):
    sp = refd["species"]
    perm = [cols.index(s) for s in sp]
    Xp = X[:, :, perm]
    mx = int(max(Xp.max(), max(max(s) for s in refd["states"]))) + 2
    if Xp.min() < 0:
        Xp = np.where(Xp < 0, mx - 1, Xp)
    w = mx ** np.arange(len(sp), dtype=np.int64)[::-1]
    codes = (Xp.astype(np.int64) * w).sum(axis=2)
    table = {int((np.array(s, dtype=np.int64) * w).sum()): i for i, s in enumerate(refd["states"])}
    u, inv = np.unique(codes, return_inverse=True)
    lut = np.array([table.get(int(c), refd["n"]) for c in u])
    return lut[inv].reshape(codes.shape)


def test_law(idx, refd, tp, pairs=None, alpha=stats.ALPHA_CELL):
    """idx: (runs, T) state indices (n = overflow/unknown). Exact binomial tests of every marginal and of joint pairs."""
    runs, T = idx.shape
    n = refd["n"]
    out = {"cells": 0, "min_p": 1.0, "rejected": []}
    for ti in range(T):
        counts = np.bincount(idx[:, ti], minlength=n + 1)[: n + 1]
        r = stats.binom_cells(counts, refd["marg"][ti], runs, alpha)
        out["cells"] += r["cells"]
        out["min_p"] = min(out["min_p"], r["min_p"])
        for c, k, e, t in r["rejected"]:
            out["rejected"].append({"kind": "marginal", "time": float(tp[ti]), "state": (list(refd["states"][c]) if c != "rest" and c < n else str(c)),
                                    "observed": k, "expected": e, "tail": t})
    if pairs is None:
        pairs = [(i, i + 1) for i in range(min(T - 1, 2))] + ([(0, T - 1)] if T > 2 else [])
    for a, b in pairs:
        K = np.eye(n + 1)
        for j in range(a + 1, b + 1):
            K = K @ refd["kern"][j]
        joint = refd["marg"][a][:, None] * K
        code = idx[:, a].astype(np.int64) * (n + 1) + idx[:, b]
        counts = np.bincount(code, minlength=(n + 1) ** 2).astype(float)
        r = stats.binom_cells(counts, joint.ravel(), runs, alpha)
        out["cells"] += r["cells"]
        out["min_p"] = min(out["min_p"], r["min_p"])
        for c, k, e, t in r["rejected"]:
            if c == "rest":
                desc = "rest"
            else:
                sa, sb = divmod(c, n + 1)
                desc = [list(refd["states"][sa]) if sa < n else "overflow", list(refd["states"][sb]) if sb < n else "overflow"]
            out["rejected"].append({"kind": "joint", "times": [float(tp[a]), float(tp[b])], "states": desc, "observed": k, "expected": e, "tail": t})
    return out


def nontrivial_law(refd):
    return any((m[: refd["n"]] >= 0.02).sum() >= 3 for m in refd["marg"])

"""One entry point for every property: workload -> children -> oracle verdicts -> evidence."""
import argparse, importlib, json, os, re, sys, time, collections
from . import build, runner, util

VERIF = build.VERIF
KNOWN = os.path.join(VERIF, "known_findings.json")


def load_known():
    try:
        with open(KNOWN) as fh:
            return json.load(fh)
    except OSError:
        return []


def write_evidence(prop, obj):
    edir = os.environ.get("VERIF_EVIDENCE_DIR") or os.path.join(VERIF, "evidence")
    os.makedirs(edir, exist_ok=True)
    path = os.path.join(edir, prop + ".json")
    tmp = path + ".tmp"
    with open(tmp, "w") as fh:
        json.dump(util.jsonable(obj), fh, indent=1, sort_keys=True)
    os.replace(tmp, path)
    return path


def san_reports(logs, bdir):
    """De-duplicated sanitizer report blocks whose stack passes through the rebuilt extensions."""
    out = collections.OrderedDict()
    for text in logs:
        blocks = re.split(r"(?m)^(?==+\d+==ERROR: AddressSanitizer|.*runtime error:)", text)
        for b in blocks:
            m = re.search(r"ERROR: AddressSanitizer: ([\w-]+)", b) or re.search(r"runtime error: (.*)", b)
            if not m:
                continue
            frames = re.findall(r"#\d+ 0x[0-9a-f]+ in (\S+) (\S+)", b)
            ours = [fn for fn, loc in frames if "bioscrape" in loc or "lineage" in loc or bdir in loc]
            if not ours:
                continue
            key = (m.group(1)[:80], re.sub(r":\d+", "", ours[0]))
            out.setdefault(key, b[:1500])
    return out


def run_property(prop, tier, seed, replay=None):
    t0 = time.time()
    mon = importlib.import_module("vlib.monitors." + prop.lower())
    build.ensure_deps()
    bdir, bkey = build.ensure("plain")
    opts = dict(getattr(mon, "RUN_OPTS", {}))
    opts.update(getattr(mon, "RUN_OPTS_TIER", {}).get(tier, {}))
    if replay:
        with open(replay) as fh:
            rp = json.load(fh)
        cases = [rp["case"]]
    else:
        cases = mon.generate(tier, seed)
    records, info = runner.run_cases(prop.lower(), cases, bdir=bdir, **opts)

    def run_more(more_cases):
        recs, inf = runner.run_cases(prop.lower(), more_cases, bdir=bdir, **opts)
        info["children"] += inf["children"]
        info["crashes"] += inf["crashes"]
        info["timeouts"] += inf["timeouts"]
        return recs

    violations = []      # (key, msg, case, detail)
    counters = collections.Counter()
    classes = collections.Counter()
    nontrivial = set()
    errors, timeouts = [], 0
    sub_nontrivial = 0
    for case, rec in zip(cases, records):
        if rec is None:
            errors.append("no record")
            continue
        if rec.get("timeout"):
            timeouts += 1
            # violations the monitor had already observed before the watchdog fired are real observations
            for v in rec.get("partial_viol", []):
                violations.append((v.get("key", "%s/unclassified" % prop), v.get("msg", "") + " [case then hit the watchdog]", case, v.get("detail")))
            continue
        if rec.get("crash"):
            key = mon.classify_crash(case, rec) if hasattr(mon, "classify_crash") else "%s/crash" % prop
            violations.append((key, "child process died (rc=%s) while running an in-domain case" % rec.get("rc"), case,
                               {"stderr": rec.get("stderr", "")[-1500:]}))
            for v in rec.get("partial_viol", []):
                violations.append((v.get("key", "%s/unclassified" % prop), v.get("msg", "") + " [child then died]", case, v.get("detail")))
            continue
        if "error" in rec:
            errors.append(rec["error"])
            continue
        for k, v in rec.get("counters", {}).items():
            counters[k] += v
        for c in rec.get("classes", []):
            classes[c] += 1
        if rec.get("nontrivial"):
            nontrivial.add(util.digest(case))
        sub_nontrivial += max(0, int(rec.get("nontrivial_n", 0)) - (1 if rec.get("nontrivial") else 0))
        for v in rec.get("viol", []):
            violations.append((v.get("key", "%s/unclassified" % prop), v.get("msg", ""), case, v.get("detail")))
    extra = {}
    if hasattr(mon, "aggregate") and not replay:
        agg = mon.aggregate(cases, records, tier, seed, run_more)
        for v in agg.get("viol", []):
            violations.append((v.get("key", "%s/unclassified" % prop), v.get("msg", ""), v.get("case"), v.get("detail")))
        for k, v in agg.get("counters", {}).items():
            counters[k] += v
        for d in agg.get("nontrivial_digests", []):
            nontrivial.add(d)
        extra = agg.get("evidence", {})
    # sanitizer lane
    san = {}
    if not replay and (tier in getattr(mon, "SANITIZE_TIERS", ()) or os.environ.get("VERIF_SANITIZE") == "1"):
        sub = mon.sanitize_subset(cases) if hasattr(mon, "sanitize_subset") else cases[:200]
        abdir, akey = build.ensure("asan")
        aopts = dict(opts)
        aopts["timeout_per_case"] = opts.get("timeout_per_case", 60.0) * 6
        aopts["base_timeout"] = 180.0
        arecs, ainfo = runner.run_cases(prop.lower(), sub, variant="asan", bdir=abdir, **aopts)
        reps = san_reports(ainfo["sanitizer_logs"], abdir)
        san = {"cases": len(sub), "build": akey, "crashes": ainfo["crashes"],
               "reports": [{"kind": k[0], "frame": k[1], "head": v[:600]} for k, v in reps.items()]}
        for (kind, frame), text in reps.items():
            violations.append(("%s/sanitizer:%s@%s" % (prop, kind.split()[0], frame),
                               "sanitizer report inside the rebuilt extensions: %s in %s" % (kind, frame), None,
                               {"report": text}))
        for c, r in zip(sub, arecs):
            if r and r.get("crash"):
                key = mon.classify_crash(c, r) if hasattr(mon, "classify_crash") else "%s/crash" % prop
                violations.append((key, "child died under the sanitizer build", c, {"stderr": r.get("stderr", "")[-1500:]}))

    # classify against the committed known-findings file
    known = {(k["property"], k["key"]): k for k in load_known() if k.get("status") == "known"}
    shown, real = set(), []
    for key, msg, case, detail in violations:
        if (prop, key) in known:
            if key not in shown:
                shown.add(key)
                print("KNOWN-FINDING: property=%s %s [%s]" % (prop, known[(prop, key)]["what"], key))
            counters["known_finding_hits"] += 1
        else:
            real.append((key, msg, case, detail))
    rdir = os.environ.get("VERIF_REPLAY_DIR") or os.path.join(VERIF, "replays")
    os.makedirs(rdir, exist_ok=True)
    seen_keys = collections.Counter()
    for key, msg, case, detail in real:
        seen_keys[key] += 1
        if seen_keys[key] > 3:
            continue
        rp = os.path.join(rdir, "%s-%s.json" % (prop, util.digest([key, case])))
        with open(rp, "w") as fh:
            json.dump(util.jsonable({"property": prop, "key": key, "msg": msg, "case": case, "detail": detail,
                                     "seed": seed, "tier": tier}), fh, indent=1)
        print("VIOLATION property=%s replay=%s" % (prop, rp))
        print("  key=%s %s" % (key, msg[:400]))
    # inconclusive?
    reasons = []
    if info["foreign_import"]:
        reasons.append("bioscrape imported from outside the rebuilt tree")
    if errors:
        reasons.append("%d case(s) ended in a harness error" % len(errors))
        for e in errors[:3]:
            print("HARNESS-ERROR:\n" + e, file=sys.stderr)
    if not replay:
        for k, m in getattr(mon, "MINIMA", {}).get(tier, getattr(mon, "MINIMA", {}).get("*", {})).items():
            if counters[k] < m:
                reasons.append("counter %s=%d below minimum %d" % (k, counters[k], m))
        if timeouts > getattr(mon, "MAX_TIMEOUTS", max(2, len(cases) // 20)):
            reasons.append("%d cases hit the wall-clock watchdog" % timeouts)
        if len(nontrivial) < 2:
            reasons.append("fewer than 2 distinct non-trivial cases")
    wall = time.time() - t0
    if not replay:
        samples = [c for c in cases[:3]]
        cov = {"evaluations": max(1, sum(1 for r in records if r and not r.get("timeout") and "error" not in r)),
               "distinct_nontrivial": len(nontrivial) + sub_nontrivial, "rule": getattr(mon, "RULE", ""), "samples": samples,
               "counters": dict(counters), "classes": dict(classes), "timeouts_inconclusive": timeouts,
               "crash_observations": info["crashes"], "children": info["children"], "build": bkey,
               "module_paths": info["env"], "known_finding_keys": sorted(shown),
               "violation_keys": dict(seen_keys), "inconclusive_reasons": reasons}
        if getattr(mon, "EXHAUSTIVE", {}).get(tier):
            cov["exhaustive"] = True
        if san:
            cov["sanitizer_lane"] = san
        cov.update(extra)
        write_evidence(prop, {"property_id": prop, "tier": tier, "seed": seed, "level": "exploration", "coverage": cov,
                              "assumptions": getattr(mon, "ASSUMPTIONS", []), "wall_s": round(wall, 2),
                              "violations": len(real)})
    print("%s tier=%s seed=%s cases=%d nontrivial=%d violations=%d known=%d timeouts=%d wall=%.1fs" %
          (prop, tier, seed, len(cases), len(nontrivial), len(real), counters["known_finding_hits"], timeouts, wall))
    if counters:
        print("  counters: " + ", ".join("%s=%s" % kv for kv in sorted(counters.items())))
    if real:
        return 1
    if reasons:
        print("INCONCLUSIVE property=%s reason=%s" % (prop, "; ".join(reasons)))
        return 2
    return 0


def main(argv=None):
    ap = argparse.ArgumentParser()
    ap.add_argument("prop", nargs="?")
    ap.add_argument("--tier", default=os.environ.get("VERIF_TIER", "quick"), choices=["quick", "thorough"])
    ap.add_argument("--replay")
    ap.add_argument("--setup", action="store_true")
    a = ap.parse_args(argv)
    if a.setup:
        build.ensure_deps()
        build.ensure("plain")
        print("setup ok")
        return 0
    try:
        return run_property(a.prop.upper(), a.tier, util.env_seed(), a.replay)
    except Exception:
        # a failure of the harness itself is never a verdict on the property
        import traceback
        traceback.print_exc()
        print("INCONCLUSIVE property=%s reason=the harness raised an exception (see the traceback above)" % a.prop.upper())
        return 2

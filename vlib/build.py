"""Snapshot + rebuild of the repository's working tree (plain and asan variants).

The cache under CACHE_ROOT is an optimisation only: a missing directory is rebuilt, and the
key is a hash over every build input, so an edited working tree is always rebuilt.
"""
import fcntl, hashlib, os, shutil, subprocess, sys, time, glob

VERIF = os.path.dirname(os.path.dirname(os.path.abspath(__file__)))
CACHE_ROOT = os.environ.get("VERIF_CACHE", "/var/tmp/bioscrape-verif")
PY = "/venv/bin/python"
DEPS = os.path.join(VERIF, ".deps")

SAN_FLAGS = ("-fsanitize=address,undefined -fno-sanitize=function,vptr -fsanitize-recover=all "
             "-fno-omit-frame-pointer -g -O1 -shared-libasan")


def repo_root():
    return os.environ.get("VERIF_REPO", "/repo")


def _inputs(repo):
    files = []
    for pat in ("bioscrape/*.pyx", "bioscrape/*.pxd", "bioscrape/*.py", "lineage/*.pyx",
                "lineage/*.pxd", "lineage/*.py", "setup.py", "pyproject.toml", "setup.cfg", "README.md"):
        files.extend(sorted(glob.glob(os.path.join(repo, pat))))
    return files


def tree_hash(repo, variant):
    h = hashlib.sha256()
    for f in _inputs(repo):
        h.update(os.path.relpath(f, repo).encode())
        with open(f, "rb") as fh:
            h.update(hashlib.sha256(fh.read()).digest())
    h.update(variant.encode())
    h.update(sys.version.encode())
    try:
        import Cython
        h.update(Cython.__version__.encode())
    except Exception:
        pass
    if variant == "asan":
        h.update(SAN_FLAGS.encode())
    return h.hexdigest()[:20]


def _prune(keep):
    """Keep the most recently used complete builds; never touch a directory that is still being built by another process
    (no .complete yet) unless it is stale (older than two hours)."""
    try:
        dirs = [d for d in glob.glob(os.path.join(CACHE_ROOT, "*-*")) if os.path.isdir(d)]
    except OSError:
        return
    now = time.time()
    complete = []
    for d in dirs:
        if os.path.exists(os.path.join(d, ".complete")):
            u = os.path.join(d, ".used")
            complete.append((os.path.getmtime(u) if os.path.exists(u) else os.path.getmtime(d), d))
        else:
            try:
                if now - os.path.getmtime(d) > 7200 and os.path.abspath(d) != os.path.abspath(keep):
                    shutil.rmtree(d, ignore_errors=True)
            except OSError:
                pass
    complete.sort(reverse=True)
    maxkeep = int(os.environ.get("VERIF_CACHE_KEEP", "6"))
    for used, d in complete[maxkeep:]:
        # never remove a build that was handed out recently: another check (a sweep next to a mutant run) may still be
        # running children against it, and a child that loses its build imports the installed package instead (the run is
        # then inconclusive - seen twice in parallel sweeps)
        if os.path.abspath(d) != os.path.abspath(keep) and now - used > 3 * 3600:
            shutil.rmtree(d, ignore_errors=True)


def ensure(variant="plain", verbose=True):
    """Return the directory holding a build of the current working tree."""
    repo = repo_root()
    key = tree_hash(repo, variant)
    os.makedirs(CACHE_ROOT, exist_ok=True)
    bdir = os.path.join(CACHE_ROOT, "%s-%s" % (key, variant))
    lock = open(os.path.join(CACHE_ROOT, ".lock-%s-%s" % (key, variant)), "w")
    fcntl.flock(lock, fcntl.LOCK_EX)
    try:
        if not os.path.exists(os.path.join(bdir, ".complete")):
            t0 = time.time()
            if os.path.exists(bdir):
                shutil.rmtree(bdir)
            os.makedirs(bdir)
            for f in _inputs(repo):
                rel = os.path.relpath(f, repo)
                os.makedirs(os.path.dirname(os.path.join(bdir, rel)) or bdir, exist_ok=True)
                shutil.copy2(f, os.path.join(bdir, rel))
            env = dict(os.environ)
            env.pop("PYTHONPATH", None)
            if variant == "asan":
                env.update(CC="clang", CXX="clang++", LDSHARED="clang++ -shared", CFLAGS=SAN_FLAGS,
                           CXXFLAGS=SAN_FLAGS, LDFLAGS="-fsanitize=address,undefined -shared-libasan")
            if verbose:
                print("[build] rebuilding %s (%s) from %s ..." % (key, variant, repo), flush=True)
            r = subprocess.run([PY, "setup.py", "build_ext", "--inplace", "-j", "5"], cwd=bdir, env=env,
                               stdout=subprocess.PIPE, stderr=subprocess.STDOUT, text=True)
            if r.returncode != 0:
                sys.stderr.write(r.stdout[-6000:])
                raise RuntimeError("build of the working tree failed (variant %s)" % variant)
            shutil.rmtree(os.path.join(bdir, "build"), ignore_errors=True)
            for cpp in glob.glob(os.path.join(bdir, "*", "*.cpp")):
                os.remove(cpp)
            open(os.path.join(bdir, ".complete"), "w").write(key)
            if verbose:
                print("[build] done in %.0f s" % (time.time() - t0), flush=True)
        open(os.path.join(bdir, ".used"), "w").write(str(time.time()))
        _prune(bdir)
    finally:
        fcntl.flock(lock, fcntl.LOCK_UN)
        lock.close()
    return bdir, key


def ensure_deps():
    """icontract beside the repository's interpreter (git-ignored, so installed on demand)."""
    os.makedirs(DEPS, exist_ok=True)
    lock = open(os.path.join(DEPS, ".lock"), "w")
    fcntl.flock(lock, fcntl.LOCK_EX)
    try:
        if not os.path.exists(os.path.join(DEPS, "icontract")):
            r = subprocess.run([PY, "-m", "pip", "install", "--no-index", "--find-links", "/opt/veriftools/wheels",
                                "--target", DEPS, "-q", "icontract"], stdout=subprocess.PIPE, stderr=subprocess.STDOUT, text=True)
            if r.returncode != 0:
                sys.stderr.write(r.stdout[-3000:])
                raise RuntimeError("could not install icontract from the offline wheelhouse")
    finally:
        fcntl.flock(lock, fcntl.LOCK_UN)
        lock.close()
    return DEPS


def asan_runtime():
    return subprocess.run(["clang", "-print-file-name=libclang_rt.asan-x86_64.so"], stdout=subprocess.PIPE, text=True).stdout.strip()


def child_env(bdir, variant="plain", logdir=None):
    env = dict(os.environ)
    env["PYTHONPATH"] = os.pathsep.join([bdir, VERIF, DEPS])
    env["BIOSCRAPE_VERIF"] = "1"
    env["PYTHONHASHSEED"] = "0"
    env["VERIF_BUILD_DIR"] = bdir
    env["MPLBACKEND"] = "Agg"
    env["OMP_NUM_THREADS"] = "1"
    env["OPENBLAS_NUM_THREADS"] = "1"
    env["MKL_NUM_THREADS"] = "1"
    if variant == "asan":
        env["LD_PRELOAD"] = asan_runtime()
        lp = os.path.join(logdir or "/var/tmp", "asan")
        env["ASAN_OPTIONS"] = "detect_leaks=0:halt_on_error=0:abort_on_error=0:allocator_may_return_null=1:log_path=%s" % lp
        env["UBSAN_OPTIONS"] = "print_stacktrace=1:halt_on_error=0:log_path=%s" % (lp + "-ub")
    return env


if __name__ == "__main__":
    v = sys.argv[1] if len(sys.argv) > 1 else "plain"
    print(ensure(v))

"""Reference semantics written from the property statements / documented formulas.
Nothing in this file imports bioscrape."""
import math, itertools
from collections import Counter

HILL = ("hillpositive", "hillnegative", "proportionalhillpositive", "proportionalhillnegative")
MODES = ("det", "vol", "stoch", "stochvol")

# ------------------------------------------------------------------ expressions (own AST)
# node: ["num", v] ["sp", name] ["par", name] ["t"] ["vol"] [op, a, b] for + - * / ^ min max ; [fn, a] for neg exp log abs step


class Undefined(Exception):
    pass


def ev(node, x, p, t=0.0, V=1.0):
    k = node[0]
    if k == "num":
        return float(node[1])
    if k == "sp":
        return float(x[node[1]])
    if k == "par":
        return float(p[node[1]])
    if k == "t":
        return float(t)
    if k == "vol":
        return float(V)
    if k in ("+", "-", "*", "/", "^", "min", "max"):
        a = ev(node[1], x, p, t, V)
        b = ev(node[2], x, p, t, V)
        if k == "+":
            return a + b
        if k == "-":
            return a - b
        if k == "*":
            return a * b
        if k == "/":
            if b == 0:
                raise Undefined("division by zero")
            return a / b
        if k == "^":
            if a < 0 and b != int(b):
                raise Undefined("negative base, fractional exponent")
            if a == 0 and math.copysign(1.0, a) < 0 and b != int(b):
                # a NEGATIVE zero under a fractional power: the base is zero as a product with a negative factor, i.e. this is an
                # isolated boundary point of an expression that is undefined all around it; an algebraically equal form
                # ((-1)^b * |base|^b) has no value there.  A plain zero base (sqrt(0)) stays asserted.
                raise Undefined("negative zero base, fractional exponent")
            if a == 0 and b < 0:
                raise Undefined("0 to a negative power")
            try:
                return math.pow(a, b)
            except (OverflowError, ValueError):
                raise Undefined("pow range")
        if k == "min":
            return min(a, b)
        return max(a, b)
    a = ev(node[1], x, p, t, V)
    if k == "neg":
        return -a
    if k == "exp":
        try:
            return math.exp(a)
        except OverflowError:
            raise Undefined("exp range")
    if k == "log":
        if a <= 0:
            raise Undefined("log of non-positive")
        return math.log(a)
    if k == "abs":
        return abs(a)
    if k == "step":
        if a == 0:
            raise Undefined("heaviside at 0")
        return 1.0 if a > 0 else 0.0
    raise ValueError("bad node %r" % (node,))


def walk(node):
    yield node
    for c in node[1:]:
        if isinstance(c, list):
            for n in walk(c):
                yield n


def names(node):
    sp, par = set(), set()
    for n in walk(node):
        if n[0] == "sp":
            sp.add(n[1])
        elif n[0] == "par":
            par.add(n[1])
    return sp, par


def to_str(node, style=None):
    """Print an AST in bioscrape's expression syntax. style: dict of printing choices."""
    st = style or {}
    k = node[0]
    if k == "num":
        v = node[1]
        if float(v) == int(v) and abs(v) < 1e6 and st.get("intlit", True):
            s = str(int(v))
        else:
            s = repr(float(v))
        return s if v >= 0 else "(%s)" % s
    if k == "sp":
        return node[1]
    if k == "par":
        return ("_" + node[1]) if node[1] in st.get("underscore", ()) else node[1]
    if k == "t":
        return "t"
    if k == "vol":
        return "volume"
    if k in ("+", "-", "*", "/"):
        return "(%s %s %s)" % (to_str(node[1], st), k, to_str(node[2], st))
    if k == "^":
        return "(%s%s%s)" % (to_str(node[1], st), st.get("pow", "^"), to_str(node[2], st))
    if k in ("min", "max"):
        nm = k.capitalize() if st.get("cap", False) else k
        if k == "min" and not st.get("cap", False):
            nm = "Min" if st.get("capmin", False) else "min"
        return "%s(%s, %s)" % (nm, to_str(node[1], st), to_str(node[2], st))
    if k == "neg":
        return "(-%s)" % to_str(node[1], st)
    if k == "exp":
        return "exp(%s)" % to_str(node[1], st)
    if k == "log":
        return "%s(%s)" % (st.get("log", "log"), to_str(node[1], st))
    if k == "abs":
        return "%s(%s)" % (st.get("abs", "abs"), to_str(node[1], st))
    if k == "step":
        return "%s(%s)" % (st.get("step", "heaviside"), to_str(node[1], st))
    raise ValueError(node)


# ------------------------------------------------------------------ rate laws

def pval(v, params):
    """A propensity field is either a parameter name or a number (or a numeric string)."""
    if isinstance(v, (int, float)):
        return float(v)
    try:
        return float(v)
    except ValueError:
        return float(params[v])


def ma_multiset(rxn):
    f = rxn["fields"]
    if "species" in f and f["species"] is not None:
        s = f["species"]
        if s in ("", "0", 0):
            return []
        return [q.strip() for q in str(s).split("*") if q.strip() != ""]
    return [r for r in rxn["reactants"]]


def rate(rxn, x, p, V=1.0, mode="det", t=0.0):
    """Closed-form rate of one reaction in one of the four evaluation modes."""
    ty = rxn["type"]
    f = rxn["fields"]
    if ty == "massaction":
        k = pval(f["k"], p)
        ms = Counter(ma_multiset(rxn))
        order = sum(ms.values())
        val = k
        for s, m in ms.items():
            xs = float(x[s])
            if mode in ("det", "vol"):
                val *= xs ** m
            else:
                for j in range(m):
                    val *= max(xs - j, 0.0)
        if mode in ("vol", "stochvol"):
            if order == 0:
                val *= V
            else:
                val /= V ** (order - 1)
        return val
    if ty in HILL:
        k = pval(f["k"], p)
        K = pval(f["K"], p)
        n = pval(f["n"], p)
        s = float(x[f["s1"]])
        if mode in ("vol", "stochvol"):
            s = s / V
        r = (s / K) ** n
        val = k * r / (1 + r) if "positive" in ty else k / (1 + r)
        if ty.startswith("proportional"):
            val *= float(x[f["d"]])
        return val
    if ty == "general":
        return ev(rxn["ast"], x, p, t, V if mode in ("vol", "stochvol") else 1.0)
    raise ValueError(ty)


def rates(spec, x, p=None, V=1.0, mode="det", t=0.0):
    p = spec["params"] if p is None else p
    return [rate(r, x, p, V, mode, t) for r in spec["reactions"]]


def stoich(spec):
    """(immediate, delayed) dicts: [reaction index][species] -> integer"""
    S, Sd = [], []
    for r in spec["reactions"]:
        c = Counter()
        for s in r["products"]:
            c[s] += 1
        for s in r["reactants"]:
            c[s] -= 1
        S.append({s: v for s, v in c.items()})
        d = Counter()
        dl = r.get("delay")
        if dl:
            for s in dl.get("products", []):
                d[s] += 1
            for s in dl.get("reactants", []):
                d[s] -= 1
        Sd.append({s: v for s, v in d.items()})
    return S, Sd


def all_species(spec):
    out = list(spec.get("species", []))
    for r in spec["reactions"]:
        for s in list(r["reactants"]) + list(r["products"]):
            if s not in out:
                out.append(s)
        dl = r.get("delay")
        if dl:
            for s in list(dl.get("reactants", [])) + list(dl.get("products", [])):
                if s not in out:
                    out.append(s)
    for s in spec.get("x0", {}):
        if s not in out:
            out.append(s)
    return out


def rhs(spec, x, p=None, t=0.0):
    """dx/dt by species name: sum_r (S+Sd)[s,r] * rate_r(x,t)."""
    S, Sd = stoich(spec)
    rs = rates(spec, x, p, 1.0, "det", t)
    out = {s: 0.0 for s in all_species(spec)}
    for i, r in enumerate(rs):
        for s, v in S[i].items():
            out[s] += v * r
        for s, v in Sd[i].items():
            out[s] += v * r
    return out


# ------------------------------------------------------------------ rules (repeated assignment interpreter)

def apply_rules(spec, x, p, t=0.0, V=1.0, only=("repeated", "repeat")):
    """Apply assignment/additive rules (in declaration order) whose frequency is in `only`. x, p are dicts (mutated)."""
    for r in spec.get("rules", []):
        if r.get("frequency", "repeated") not in only:
            continue
        if r["type"] == "additive":
            x[r["target"]] = sum(float(x[s]) for s in r["sources"])
        elif r["type"] == "assignment":
            v = ev(r["ast"], x, p, t, V)
            if r["target"] in p and r["target"] not in x:
                p[r["target"]] = v
            else:
                x[r["target"]] = v
    return x, p


# ------------------------------------------------------------------ chemical master equation

def reachable(spec, x0, mode="stoch", V=1.0, max_states=20000, cap=None):
    """Breadth-first reachable set under the net stoichiometry with positive reference propensity."""
    sp = all_species(spec)
    S, Sd = stoich(spec)
    net = []
    for i in range(len(spec["reactions"])):
        c = Counter(S[i])
        c.update(Sd[i])
        net.append([c.get(s, 0) for s in sp])
    start = tuple(int(x0.get(s, 0)) for s in sp)
    index = {start: 0}
    order = [start]
    trans = []  # (i, j, rate)
    q = [start]
    p = spec["params"]
    while q:
        nxt = []
        for st in q:
            xd = dict(zip(sp, st))
            rs = rates(spec, xd, p, V, mode, 0.0)
            for ri, r in enumerate(rs):
                if r <= 0:
                    continue
                ns = tuple(a + b for a, b in zip(st, net[ri]))
                if cap is not None and any(v > cap for v in ns):
                    # truncated: mass flowing out is dropped into an absorbing "overflow" (tracked by caller)
                    trans.append((index[st], -1, r))
                    continue
                if ns not in index:
                    if len(order) >= max_states:
                        raise OverflowError("state space too large")
                    index[ns] = len(order)
                    order.append(ns)
                    nxt.append(ns)
                trans.append((index[st], index[ns], r))
        q = nxt
    return sp, order, trans


def generator(nstates, trans):
    import numpy as np
    Q = np.zeros((nstates + 1, nstates + 1))
    for i, j, r in trans:
        jj = nstates if j == -1 else j
        Q[i, jj] += r
        Q[i, i] -= r
    return Q


def cme_kernel(Q, dt):
    from scipy.linalg import expm
    return expm(Q * dt)


# ------------------------------------------------------------------ priors

def logpdf(prior, v):
    """log density of the seven families; -inf outside the support."""
    kind = prior[0]
    try:
        if kind == "uniform":
            lo, hi = prior[1], prior[2]
            return -math.log(hi - lo) if lo <= v <= hi else -math.inf
        if kind == "gaussian":
            mu, sd = prior[1], prior[2]
            return -0.5 * ((v - mu) / sd) ** 2 - math.log(sd) - 0.5 * math.log(2 * math.pi)
        if kind == "exponential":
            lam = prior[1]
            return math.log(lam) - lam * v if v >= 0 else -math.inf
        if kind == "gamma":
            a, b = prior[1], prior[2]  # shape, rate
            if v <= 0:
                return -math.inf if not (v == 0 and a == 1) else math.log(b)
            return a * math.log(b) - math.lgamma(a) + (a - 1) * math.log(v) - b * v
        if kind == "beta":
            a, b = prior[1], prior[2]
            if v < 0 or v > 1:
                return -math.inf
            if v == 0 or v == 1:
                # closed support: the density has a finite positive value at an end point exactly when the exponent there is 0
                if (v == 0 and a != 1) or (v == 1 and b != 1):
                    return -math.inf
                return math.lgamma(a + b) - math.lgamma(a) - math.lgamma(b)
            return (a - 1) * math.log(v) + (b - 1) * math.log(1 - v) - (math.lgamma(a) + math.lgamma(b) - math.lgamma(a + b))
        if kind == "log-uniform":
            lo, hi = prior[1], prior[2]
            return -math.log(v) - math.log(math.log(hi / lo)) if lo <= v <= hi else -math.inf
        if kind == "log-gaussian":
            mu, sd = prior[1], prior[2]
            if v <= 0:
                return -math.inf
            return -0.5 * ((math.log(v) - mu) / sd) ** 2 - math.log(sd) - 0.5 * math.log(2 * math.pi) - math.log(v)
    except (ValueError, ZeroDivisionError):
        return -math.inf
    raise ValueError(kind)

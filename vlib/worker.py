"""Child process: runs a batch of cases of one monitor, one JSON line per event."""
import sys, json, importlib, traceback, os, warnings, time


def main():
    batch_file, out_file = sys.argv[1], sys.argv[2]
    with open(batch_file) as fh:
        batch = json.load(fh)
    out = open(out_file, "a", buffering=1)

    def emit(o):
        from vlib.util import _default
        out.write(json.dumps(o, default=_default) + "\n")
        out.flush()
        os.fsync(out.fileno())

    warnings.simplefilter("ignore")
    import logging
    logging.disable(logging.CRITICAL)
    mon = importlib.import_module("vlib.monitors." + batch["monitor"])
    import bioscrape, bioscrape.types, bioscrape.simulator
    emit({"env": {"bioscrape": os.path.dirname(bioscrape.__file__), "types": bioscrape.types.__file__,
                  "simulator": bioscrape.simulator.__file__, "build_dir": os.environ.get("VERIF_BUILD_DIR")}})
    if hasattr(mon, "child_setup"):
        mon.child_setup()
    import faulthandler
    from vlib import util
    cur = [None]
    util._partial_sink = lambda v: emit({"i": cur[0], "partial": v})
    case_timeout = batch.get("case_timeout")
    for idx, case in batch["cases"]:
        emit({"i": idx, "start": True})
        cur[0] = idx
        t0 = time.time()
        if case_timeout:
            # per-case watchdog: fires from faulthandler's own thread even when the main thread is stuck inside the
            # extension (an explosive network never returns); the parent recognises the "Timeout (" marker
            faulthandler.dump_traceback_later(case_timeout, exit=True)
        try:
            rec = mon.run_case(case)
        except BaseException as e:  # harness error or something bioscrape raised that the monitor did not expect
            rec = {"error": "".join(traceback.format_exception(type(e), e, e.__traceback__))[-4000:]}
        if case_timeout:
            faulthandler.cancel_dump_traceback_later()
        rec["wall"] = round(time.time() - t0, 4)
        emit({"i": idx, "rec": rec})
    emit({"done": True})


if __name__ == "__main__":
    main()

"""Child-side: evaluation of libsbml ASTs by the harness's own evaluator, and builders for SBML documents."""
import math
import libsbml as L
from . import ref


class Unsupported(Exception):
    pass


def ast_eval(node, env, time=0.0):
    """env: callable name -> value (raises KeyError for undefined ids)"""
    t = node.getType()
    nc = node.getNumChildren()
    ch = lambda i: ast_eval(node.getChild(i), env, time)
    if t == L.AST_INTEGER:
        return float(node.getInteger())
    if t in (L.AST_REAL, L.AST_REAL_E, L.AST_RATIONAL):
        return float(node.getReal())
    if t == L.AST_NAME:
        return float(env(node.getName()))
    if t == L.AST_NAME_TIME:
        return float(time)
    if t == L.AST_CONSTANT_E:
        return math.e
    if t == L.AST_CONSTANT_PI:
        return math.pi
    if t == L.AST_PLUS:
        return sum(ch(i) for i in range(nc))
    if t == L.AST_TIMES:
        v = 1.0
        for i in range(nc):
            v *= ch(i)
        return v
    if t == L.AST_MINUS:
        return -ch(0) if nc == 1 else ch(0) - ch(1)
    if t == L.AST_DIVIDE:
        b = ch(1)
        if b == 0:
            raise ref.Undefined("division by zero")
        return ch(0) / b
    if t in (L.AST_POWER, L.AST_FUNCTION_POWER):
        a, b = ch(0), ch(1)
        if (a < 0 and b != int(b)) or (a == 0 and b < 0):
            raise ref.Undefined("pow domain")
        try:
            return math.pow(a, b)
        except (OverflowError, ValueError):
            raise ref.Undefined("pow range")
    if t == L.AST_FUNCTION_EXP:
        try:
            return math.exp(ch(0))
        except OverflowError:
            raise ref.Undefined("exp range")
    if t == L.AST_FUNCTION_LN:
        a = ch(0)
        if a <= 0:
            raise ref.Undefined("ln domain")
        return math.log(a)
    if t == L.AST_FUNCTION_LOG:
        if nc == 2:
            base, a = ch(0), ch(1)
        else:
            base, a = 10.0, ch(0)
        if a <= 0 or base <= 0:
            raise ref.Undefined("log domain")
        return math.log(a) / math.log(base)
    if t == L.AST_FUNCTION_ABS:
        return abs(ch(0))
    if t == L.AST_FUNCTION_ROOT:
        if nc == 2:
            deg, a = ch(0), ch(1)
        else:
            deg, a = 2.0, ch(0)
        if a < 0:
            raise ref.Undefined("root domain")
        return a ** (1.0 / deg)
    if hasattr(L, "AST_FUNCTION_MIN") and t == L.AST_FUNCTION_MIN:
        return min(ch(i) for i in range(nc))
    if hasattr(L, "AST_FUNCTION_MAX") and t == L.AST_FUNCTION_MAX:
        return max(ch(i) for i in range(nc))
    raise Unsupported("AST node type %d (%s)" % (t, node.getName()))


def ast_names(node, out=None):
    out = set() if out is None else out
    if node.getType() == L.AST_NAME:
        out.add(node.getName())
    for i in range(node.getNumChildren()):
        ast_names(node.getChild(i), out)
    return out


def ast_has_unknown_function(node):
    if node.getType() in (L.AST_FUNCTION, L.AST_LAMBDA, L.AST_FUNCTION_PIECEWISE):
        return True
    return any(ast_has_unknown_function(node.getChild(i)) for i in range(node.getNumChildren()))


def to_l3(node, style=None):
    """harness AST -> SBML L3 formula text with natural log written as ln"""
    st = dict(style or {})
    st["log"] = "ln"
    st["pow"] = "^"
    st["abs"] = "abs"
    return ref.to_str(node, st)


def ast_mag(node, env, time=0.0):
    """Magnitude bound of an expression evaluated without cancellation (|a|+|b| for a+b and a-b, products of magnitudes): the
    scale against which rounding differences between algebraically equal forms (an expanded product, a re-ordered sum) are
    measured.  Falls back to |value| for anything but + - * / and powers."""
    t = node.getType()
    nc = node.getNumChildren()
    mg = lambda i: ast_mag(node.getChild(i), env, time)
    try:
        if t in (L.AST_PLUS,):
            return sum(mg(i) for i in range(nc))
        if t == L.AST_MINUS:
            return mg(0) if nc == 1 else mg(0) + mg(1)
        if t == L.AST_TIMES:
            v = 1.0
            for i in range(nc):
                v *= mg(i)
            return v
        if t == L.AST_DIVIDE:
            b = abs(ast_eval(node.getChild(1), env, time))
            return mg(0) / b if b > 0 else float("inf")
        if t in (L.AST_POWER, L.AST_FUNCTION_POWER):
            b = ast_eval(node.getChild(1), env, time)
            if b >= 0:
                return math.pow(mg(0), b)
        return abs(ast_eval(node, env, time))
    except (OverflowError, ValueError):
        return float("inf")


def ast_cond(node, env, time=0.0, delta=1e-8):
    """Sum over the identifiers of |x_i * df/dx_i| for the expression AS WRITTEN (one-sided relative perturbation of each input):
    how far the value moves when an input is off by one part in 1/eps.  An input that is itself computed (a parameter assigned
    by a rule) legitimately differs in the last bits between two correct evaluations, and the value may differ by a few eps
    times this number; an algebraic re-arrangement that makes the evaluation worse than that is not covered by it."""
    try:
        f0 = ast_eval(node, env, time)
        tot = 0.0
        for nm in set(ast_names(node)):
            def env2(n_, nm=nm):
                v = env(n_)
                return v * (1.0 + delta) if n_ == nm else v
            tot += abs(ast_eval(node, env2, time) - f0) / delta
        return tot
    except (ref.Undefined, KeyError, OverflowError, ValueError, ZeroDivisionError):
        return float("inf")

import hashlib, json, random, os


def canon(obj):
    return json.dumps(obj, sort_keys=True, separators=(",", ":"), default=_default)


def _default(o):
    try:
        import numpy as np
        if isinstance(o, np.ndarray):
            return o.tolist()
        if isinstance(o, (np.floating,)):
            return float(o)
        if isinstance(o, (np.integer,)):
            return int(o)
        if isinstance(o, (np.bool_,)):
            return bool(o)
    except Exception:
        pass
    return repr(o)


def digest(obj):
    return hashlib.sha256(canon(obj).encode()).hexdigest()[:16]


def rng(prop, tier, seed, stream):
    h = hashlib.sha256(("%s|%s|%s|%s" % (prop, tier, seed, stream)).encode()).digest()
    return random.Random(int.from_bytes(h[:8], "big"))


def seed64(prop, tier, seed, stream):
    h = hashlib.sha256(("seed|%s|%s|%s|%s" % (prop, tier, seed, stream)).encode()).digest()
    return int.from_bytes(h[:8], "big")


def splitmix64(x):
    """Generator of 64-bit seeds from one seed."""
    mask = (1 << 64) - 1
    while True:
        x = (x + 0x9E3779B97F4A7C15) & mask
        z = x
        z = ((z ^ (z >> 30)) * 0xBF58476D1CE4E5B9) & mask
        z = ((z ^ (z >> 27)) * 0x94D049BB133111EB) & mask
        yield z ^ (z >> 31)


def env_seed():
    try:
        return int(os.environ.get("VERIF_SEED", "0"))
    except ValueError:
        return 0


def jsonable(o):
    return json.loads(json.dumps(o, default=_default))


_partial_sink = None


class ViolList(list):
    """the per-case violation list of a monitor: every append is also streamed to the parent, so that a violation observed
    before the case hangs or crashes (a corrupted model often does both) is not lost with the child"""
    def append(self, v):
        list.append(self, v)
        if _partial_sink is not None and len(self) <= 8:
            try:
                _partial_sink(v)
            except Exception:
                pass

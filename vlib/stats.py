"""Exact (non-asymptotic) statistical monitors with a bounded false-alarm rate."""
import math
import numpy as np

ALPHA_CELL = 1e-15      # per-cell level: Bonferroni for up to 1e6 cells at family-wise 1e-9 per stage
MIN_EXPECTED = 5.0


def binom_cells(counts, probs, n, alpha=ALPHA_CELL, min_expected=MIN_EXPECTED):
    """counts, probs: arrays over cells (probs sums to <= 1). Cells with n*p < min_expected are merged into one rest cell
    together with the unlisted mass.  Returns dict(cells, min_p, rejected=[(cell index or 'rest', k, n*p, p_tail)])"""
    from scipy.stats import binom
    counts = np.asarray(counts, dtype=float)
    probs = np.clip(np.asarray(probs, dtype=float), 0.0, 1.0)
    big = probs * n >= min_expected
    k = counts[big]
    p = probs[big]
    rest_p = max(0.0, 1.0 - p.sum())
    rest_k = n - k.sum()
    lo = binom.cdf(k, n, p)
    hi = binom.sf(k - 1, n, p)
    tail = np.minimum(lo, hi)
    rej = []
    idx = np.nonzero(big)[0]
    for j in np.nonzero(tail < alpha / 2)[0]:
        rej.append((int(idx[j]), float(k[j]), float(n * p[j]), float(tail[j])))
    ncell = int(big.sum())
    min_p = float(tail.min()) if ncell else 1.0
    if rest_p * n >= min_expected or rest_k > 0:
        rp = min(max(rest_p, 0.0), 1.0)
        t = min(binom.cdf(rest_k, n, rp), binom.sf(rest_k - 1, n, rp))
        # the rest cell's probability carries the truncation / merging error: allow 1e-9 absolute slack
        t = max(t, min(binom.cdf(rest_k, n, min(rp + 1e-9, 1.0)), binom.sf(rest_k - 1, n, min(rp + 1e-9, 1.0))))
        ncell += 1
        min_p = min(min_p, float(t))
        if t < alpha / 2:
            rej.append(("rest", float(rest_k), float(n * rp), float(t)))
    return {"cells": ncell, "min_p": min_p, "rejected": rej}


def dkw_eps(n, alpha=1e-12):
    return math.sqrt(math.log(2.0 / alpha) / (2.0 * n))


def dkw_test(samples, cdf, alpha=1e-12):
    """sup |F_n - F| against the Dvoretzky-Kiefer-Wolfowitz bound. cdf: vectorised callable. Returns (D, eps, ok)."""
    x = np.sort(np.asarray(samples, dtype=float))
    n = len(x)
    F = cdf(x)
    i = np.arange(1, n + 1)
    D = max(np.max(i / n - F), np.max(F - (i - 1) / n))
    eps = dkw_eps(n, alpha)
    return float(D), eps, bool(D <= eps)


def poisson_mean_test(total, n, mean, alpha=1e-12):
    """sum of n iid Poisson(mean) is Poisson(n*mean): exact two-sided tail."""
    from scipy.stats import poisson
    mu = n * mean
    t = min(poisson.cdf(total, mu), poisson.sf(total - 1, mu))
    return float(t), bool(t >= alpha / 2)
